//! The whole content of this crate is one compile-time assertion: expressions over thread-safe
//! data types are Send and Sync. It is built by `./check C20`; a build failure that mentions
//! Send / Sync is the violation.
use exmex::{DeepEx, FlatEx, FlatExVal, Val};

fn assert_send_sync<T: Send + Sync>() {}

pub fn expressions_are_send_and_sync() {
    assert_send_sync::<FlatEx<f64>>();
    assert_send_sync::<FlatEx<f32>>();
    assert_send_sync::<DeepEx<'static, f64>>();
    assert_send_sync::<FlatExVal<i32, f64>>();
    assert_send_sync::<DeepEx<'static, Val<i64, f32>, exmex::ValOpsFactory<i64, f32>, exmex::ValMatcher>>();
    assert_send_sync::<exmex::ExError>();
}
