// prototype: reference interpreter for the documented Val rules vs ValOpsFactory, direct application
use exmex::{MakeOperators, Val, ValOpsFactory};
use smallvec::smallvec;
use std::collections::BTreeMap;
type V = Val<i32, f64>;
fn cat() -> Vec<V> {
    let mut v: Vec<V> = vec![];
    for i in [0, 1, -1, 2, 3, -3, 7, 31, 32, 33, 100, 46341, i32::MAX, i32::MIN, i32::MIN + 1, i32::MAX - 1] { v.push(Val::Int(i)); }
    for f in [0.0, -0.0, 1.0, -1.0, 0.5, 2.0, 3.0, -2.5, 1e10, 1e300, f64::MAX, f64::MIN_POSITIVE, f64::INFINITY, f64::NEG_INFINITY, f64::NAN, 2147483647.0, 2147483648.0] { v.push(Val::Float(f)); }
    v.push(Val::Bool(true)); v.push(Val::Bool(false)); v.push(Val::None); v.push(Val::Error(exmex::ExError::new("e")));
    v.push(Val::Array(smallvec![])); v.push(Val::Array(smallvec![1.0, 2.0, 3.0]));
    v
}
#[derive(Debug, Clone, PartialEq)]
enum Exp { Int(i128), IntErr, Float(f64), Bool(bool), Err, NoClaim }
fn feq(a: f64, b: f64) -> bool { a.to_bits() == b.to_bits() || (a.is_nan() && b.is_nan()) }
fn model_bin(op: &str, a: &V, b: &V) -> Exp {
    use Val::*;
    let in_range = |x: i128| if x >= i32::MIN as i128 && x <= i32::MAX as i128 { Exp::Int(x) } else { Exp::IntErr };
    let arith = ["+", "-", "*", "/", "min", "max"]; let bitw = ["%", "|", "&", "XOR", "<<", ">>"]; let cmp = ["==", "<", "<=", ">", ">="];
    let errprop = ["+", "-", "*", "/", "min", "max", "%", "|", "&", "XOR", "<<", ">>", "^", "dot", "cross", ".", "atan2"];
    if errprop.contains(&op) && (matches!(a, Error(_)) || matches!(b, Error(_))) { return Exp::Err; }
    match (a, b) {
        (Int(x), Int(y)) => { let (x, y) = (*x as i128, *y as i128); match op {
            "+" => in_range(x + y), "-" => in_range(x - y), "*" => in_range(x * y),
            "/" => if y == 0 { Exp::IntErr } else { in_range(x / y) }, // trunc toward zero like Rust
            "%" => if y == 0 || (x == i32::MIN as i128 && y == -1) { Exp::IntErr } else { in_range(x % y) },
            "min" => Exp::Int(x.min(y)), "max" => Exp::Int(x.max(y)),
            "|" => Exp::Int((x as i32 | y as i32) as i128), "&" => Exp::Int((x as i32 & y as i32) as i128), "XOR" => Exp::Int((x as i32 ^ y as i32) as i128),
            "<<" => if (0..32).contains(&y) { Exp::Int(((x as i32) << y) as i128) } else { Exp::IntErr },
            ">>" => if (0..32).contains(&y) { Exp::Int(((x as i32) >> y) as i128) } else { Exp::IntErr },
            "^" => if y < 0 { Exp::IntErr } else { let mut r: i128 = 1; let mut ok = true; for _ in 0..y.min(200) { r *= x; if r.abs() > (1i128 << 40) { ok = false; break; } } if y > 200 && x.abs() > 1 { ok = false; } if !ok { Exp::IntErr } else { in_range(r) } },
            "==" => Exp::Bool(x == y), "<" => Exp::Bool(x < y), "<=" => Exp::Bool(x <= y), ">" => Exp::Bool(x > y), ">=" => Exp::Bool(x >= y), "!=" => Exp::Bool(x != y),
            _ => Exp::NoClaim } }
        (Int(_), Float(_)) | (Float(_), Int(_)) | (Float(_), Float(_)) => {
            let x = match a { Int(i) => *i as f64, Float(f) => *f, _ => unreachable!() }; let y = match b { Int(i) => *i as f64, Float(f) => *f, _ => unreachable!() };
            let both_float = matches!((a, b), (Float(_), Float(_)));
            match op { "+" => Exp::Float(x + y), "-" => Exp::Float(x - y), "*" => Exp::Float(x * y),
                "/" => if matches!(b, Int(0)) { Exp::NoClaim } else { Exp::Float(x / y) },
                "min" => Exp::Float(x.min(y)), "max" => Exp::Float(x.max(y)),
                "==" => Exp::Bool(x == y), "<" => Exp::Bool(x < y), "<=" => Exp::Bool(x <= y), ">" => Exp::Bool(x > y), ">=" => Exp::Bool(x >= y), "!=" => Exp::Bool(x != y),
                "^" if both_float => Exp::Float(x.powf(y)),
                _ => Exp::NoClaim } }
        (Bool(x), Bool(y)) => match op { "==" => Exp::Bool(x == y), "!=" => Exp::Bool(x != y), "&&" => Exp::Bool(*x && *y), "||" => Exp::Bool(*x || *y), o if cmp.contains(&o) => Exp::NoClaim, _ => Exp::NoClaim },
        _ => { // mismatched kinds / none / error / arrays
            if cmp.contains(&op) { let arr = matches!(a, Array(_)) && matches!(b, Array(_)); if arr { Exp::NoClaim } else { Exp::Bool(false) } }
            else if (arith.contains(&op) || bitw.contains(&op) || op == "^") && !(matches!(a, Array(_)) || matches!(b, Array(_))) { Exp::Err } // wrong operand kinds -> error value
            else { Exp::NoClaim } }
    }
}
fn main() {
    std::panic::set_hook(Box::new(|_| {}));
    let ops = ValOpsFactory::<i32, f64>::make();
    let c = cat();
    let mut bad: BTreeMap<String, Vec<String>> = BTreeMap::new(); let mut judged = 0; let mut noclaim = 0;
    for op in &ops { if let Ok(b) = op.bin() { for x in &c { for y in &c {
        let exp = model_bin(op.repr(), x, y);
        if exp == Exp::NoClaim { noclaim += 1; continue; }
        judged += 1;
        let (x2, y2) = (x.clone(), y.clone());
        let got = std::panic::catch_unwind(move || (b.apply)(x2, y2));
        let ok = match (&exp, &got) {
            (_, Err(_)) => false,
            (Exp::Int(i), Ok(Val::Int(g))) => *i == *g as i128,
            (Exp::IntErr, Ok(Val::Error(_))) | (Exp::Err, Ok(Val::Error(_))) => true,
            (Exp::Float(f), Ok(Val::Float(g))) => feq(*f, *g),
            (Exp::Bool(b), Ok(Val::Bool(g))) => b == g,
            _ => false };
        if !ok { bad.entry(op.repr().to_string()).or_default().push(format!("({x:?}, {y:?}) want {exp:?} got {:?}", got.map_err(|_| "PANIC"))); }
    } } } }
    println!("judged {judged} noclaim {noclaim}");
    for (k, v) in &bad { println!("== {k}: {} e.g.", v.len()); for x in v.iter().take(5) { println!("    {x}"); } }
}
