use exmex::{MakeOperators, Val, ValOpsFactory};
use smallvec::smallvec;
use std::collections::BTreeMap;
type V = Val<i32, f64>;
type V64 = Val<i64, f32>;
fn cat() -> Vec<V> {
    let mut v: Vec<V> = vec![];
    for i in [0, 1, -1, 2, 3, 31, 32, 33, 100, i32::MAX, i32::MIN, i32::MIN + 1, -2] { v.push(Val::Int(i)); }
    for f in [0.0, -0.0, 1.0, -1.0, 0.5, 2.0, 1e10, -1e10, 1e300, f64::MAX, f64::MIN_POSITIVE, f64::INFINITY, f64::NEG_INFINITY, f64::NAN, 2147483647.0, 2147483648.0, -2147483648.0, -2147483649.0] { v.push(Val::Float(f)); }
    v.push(Val::Bool(true)); v.push(Val::Bool(false)); v.push(Val::None); v.push(Val::Error(exmex::ExError::new("e")));
    v.push(Val::Array(smallvec![])); v.push(Val::Array(smallvec![1.0])); v.push(Val::Array(smallvec![1.0, 2.0, 3.0])); v.push(Val::Array(smallvec![1.0, f64::NAN, 3.0, 4.0, 5.0]));
    v
}
fn main() {
    std::panic::set_hook(Box::new(|_| {}));
    let ops = ValOpsFactory::<i32, f64>::make();
    let c = cat();
    let mut panics: BTreeMap<String, Vec<String>> = BTreeMap::new();
    let mut n = 0;
    for op in &ops {
        if let Ok(u) = op.unary() { for a in &c { n += 1; let a2 = a.clone(); if std::panic::catch_unwind(move || u(a2)).is_err() { panics.entry(format!("unary {}", op.repr())).or_default().push(format!("{a:?}")); } } }
        if let Ok(b) = op.bin() { for a in &c { for bb in &c { n += 1; let (a2, b2) = (a.clone(), bb.clone()); if std::panic::catch_unwind(move || (b.apply)(a2, b2)).is_err() { panics.entry(format!("bin {}", op.repr())).or_default().push(format!("({a:?}, {bb:?})")); } } } }
    }
    println!("i32/f64 applications {n}");
    for (k, v) in &panics { println!("PANIC {k}: {} e.g. {}", v.len(), v.iter().take(4).cloned().collect::<Vec<_>>().join(" ; ")); }
    // i64/f32
    let ops = ValOpsFactory::<i64, f32>::make();
    let c: Vec<V64> = vec![Val::Int(0), Val::Int(i64::MAX), Val::Int(i64::MIN), Val::Int(-1), Val::Int(1<<40), Val::Int(63), Val::Int(64), Val::Float(0.0), Val::Float(f32::MAX), Val::Float(f32::NAN), Val::Float(1e30), Val::Float(2.0), Val::Bool(true), Val::None];
    let mut panics: BTreeMap<String, Vec<String>> = BTreeMap::new();
    for op in &ops {
        if let Ok(u) = op.unary() { for a in &c { let a2 = a.clone(); if std::panic::catch_unwind(move || u(a2)).is_err() { panics.entry(format!("unary {}", op.repr())).or_default().push(format!("{a:?}")); } } }
        if let Ok(b) = op.bin() { for a in &c { for bb in &c { let (a2, b2) = (a.clone(), bb.clone()); if std::panic::catch_unwind(move || (b.apply)(a2, b2)).is_err() { panics.entry(format!("bin {}", op.repr())).or_default().push(format!("({a:?}, {bb:?})")); } } } }
    }
    for (k, v) in &panics { println!("PANIC64 {k}: {} e.g. {}", v.len(), v.iter().take(4).cloned().collect::<Vec<_>>().join(" ; ")); }
}
