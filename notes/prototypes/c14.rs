#[path = "../sym.rs"]
mod sym;
use exmex::prelude::*;
use exmex::{DeepEx, Express};
use sym::*;
type FX = FlatEx<Sym, SymOps, SymMatcher>;
type DX<'a> = DeepEx<'a, Sym, SymOps, SymMatcher>;
pub struct Rng(u64);
impl Rng { fn next(&mut self) -> u64 { self.0 ^= self.0 << 13; self.0 ^= self.0 >> 7; self.0 ^= self.0 << 17; self.0 } fn below(&mut self, n: usize) -> usize { (self.next() % n as u64) as usize } }
// model: reduce chain of n operands with ops applied in the order given by ranks (higher prio first, ties left to right)
fn model(n: usize, prio: &[i64]) -> Sym {
    let mut vals: Vec<Option<Sym>> = (0..n).map(|i| Some(Sym::Var(i))).collect();
    let mut order: Vec<usize> = (0..n - 1).collect();
    order.sort_by(|a, b| prio[*b].cmp(&prio[*a]));
    let mut consumed = vec![false; n];
    for op in order {
        let mut l = op; while consumed[l] { l -= 1; }
        let mut r = op + 1; while consumed[r] { r += 1; }
        let a = vals[l].take().unwrap(); let b = vals[r].take().unwrap();
        vals[l] = Some(Sym::Bin((op % 16) as u8, Box::new(a), Box::new(b))); consumed[r] = true;
    }
    vals[0].take().unwrap()
}
fn main() {
    let a: Vec<String> = std::env::args().collect();
    let mut r = Rng(a[1].parse::<u64>().unwrap().wrapping_mul(0x9E3779B97F4A7C15) | 1);
    let names: Vec<&'static str> = (0..600).map(|i| &*Box::leak(format!("o{i}q").into_boxed_str())).collect();
    let mut bad = 0; let mut cases = 0;
    let t0 = std::time::Instant::now();
    for &n in &[2usize, 3, 5, 9, 31, 32, 33, 34, 63, 64, 65, 66, 127, 128, 129, 130, 191, 192, 193, 194, 257, 500] {
        for rep in 0..(if n <= 9 { 200 } else { 12 }) {
            // permutation kinds
            let mut prio: Vec<i64> = (0..n as i64 - 1).collect();
            match rep % 6 { 0 => {}, 1 => prio.reverse(), 2 => { for (i, p) in prio.iter_mut().enumerate() { *p = if i % 2 == 0 { i as i64 } else { 900 - i as i64 }; } },
                3 => { let m = n as i64 / 2; for (i, p) in prio.iter_mut().enumerate() { *p = 900 - (i as i64 - m).abs(); } },
                4 => { for p in prio.iter_mut() { *p = r.below(5) as i64; } } // many ties
                _ => { for i in (1..prio.len()).rev() { let j = r.below(i + 1); prio.swap(i, j); } } }
            let table: Vec<OpSpec> = (0..n - 1).map(|k| OpSpec { name: names[k], bin: Some(((k % 16) as u8, prio[k], false)), un: None, constant: None }).collect();
            TABLE.with(|t| *t.borrow_mut() = table);
            let text = (0..n).map(|i| format!("{{v{i:03}}}")).enumerate().map(|(i, v)| if i + 1 < n { format!("{v} {} ", names[i]) } else { v }).collect::<String>();
            let vals: Vec<Sym> = (0..n).map(Sym::Var).collect();
            let want = model(n, &prio);
            cases += 1;
            let f = FX::parse(&text).unwrap().eval(&vals).unwrap();
            let fw = FX::parse_wo_compile(&text).unwrap().eval(&vals).unwrap();
            let d = DX::parse(&text).unwrap().eval(&vals).unwrap();
            let f2d = FX::parse(&text).unwrap().to_deepex().unwrap().eval(&vals).unwrap();
            if f != want || fw != want || d != want || f2d != want { bad += 1; if bad < 5 { println!("MISMATCH n={n} rep={rep} flat_ok={} wo_ok={} deep_ok={} f2d_ok={}", f == want, fw == want, d == want, f2d == want); } }
        }
    }
    println!("cases {cases} bad {bad} in {:?}", t0.elapsed());
}
