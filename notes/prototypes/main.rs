mod sym;
use exmex::prelude::*;
use exmex::{DeepEx, Express};
use std::collections::BTreeMap;
use sym::*;

type FX = FlatEx<Sym, SymOps, SymMatcher>;
type DX<'a> = DeepEx<'a, Sym, SymOps, SymMatcher>;

pub struct Rng(u64);
impl Rng {
    fn next(&mut self) -> u64 {
        self.0 ^= self.0 << 13;
        self.0 ^= self.0 >> 7;
        self.0 ^= self.0 << 17;
        self.0
    }
    fn below(&mut self, n: usize) -> usize {
        (self.next() % n as u64) as usize
    }
    fn chance(&mut self, num: usize, den: usize) -> bool {
        self.below(den) < num
    }
}

#[derive(Clone, Debug)]
enum Tree {
    Lit(String),
    Var(String),
    Un(usize, Box<Tree>),
    Bin(usize, Box<Tree>, Box<Tree>),
}

fn gen_table(rng: &mut Rng, prio_range: usize) -> Vec<OpSpec> {
    let bin_names = ["+", "-", "*", "/", "^", "%", "mx", "mn"];
    let un_names = ["sin", "cos", "!", "ln"];
    let mut t = vec![];
    let nb = 2 + rng.below(bin_names.len() - 1);
    let mut slot = 0u8;
    for name in bin_names.iter().take(nb) {
        let prio = rng.below(prio_range) as i64;
        let comm = rng.chance(1, 2) && std::env::var("NOCOMM").is_err();
        let un = if (*name == "+" || *name == "-") && rng.chance(2, 3) {
            slot += 1;
            Some(slot - 1)
        } else {
            None
        };
        t.push(OpSpec { name, bin: Some((slot, prio, comm)), un, constant: None });
        slot += 1;
    }
    let nu = 1 + rng.below(un_names.len());
    for name in un_names.iter().take(nu) {
        t.push(OpSpec { name, bin: None, un: Some(slot), constant: None });
        slot += 1;
    }
    t
}

fn gen_tree(rng: &mut Rng, table: &[OpSpec], depth: usize, lit_bias: usize) -> Tree {
    let bins: Vec<usize> = (0..table.len()).filter(|i| table[*i].bin.is_some()).collect();
    let uns: Vec<usize> = (0..table.len()).filter(|i| table[*i].un.is_some()).collect();
    if depth == 0 || rng.chance(1, 5) {
        if rng.chance(lit_bias, 10) {
            Tree::Lit(format!("{}", 1 + rng.below(9)))
        } else {
            Tree::Var(["x", "y", "z"][rng.below(3)].to_string())
        }
    } else if rng.chance(1, 4) {
        Tree::Un(uns[rng.below(uns.len())], Box::new(gen_tree(rng, table, depth - 1, lit_bias)))
    } else {
        Tree::Bin(
            bins[rng.below(bins.len())],
            Box::new(gen_tree(rng, table, depth - 1, lit_bias)),
            Box::new(gen_tree(rng, table, depth - 1, lit_bias)),
        )
    }
}

fn vars_of(t: &Tree, out: &mut Vec<String>) {
    match t {
        Tree::Var(n) => {
            if !out.contains(n) {
                out.push(n.clone())
            }
        }
        Tree::Un(_, a) => vars_of(a, out),
        Tree::Bin(_, a, b) => {
            vars_of(a, out);
            vars_of(b, out)
        }
        _ => {}
    }
}

fn reference(t: &Tree, table: &[OpSpec], vars: &[String]) -> Sym {
    match t {
        Tree::Lit(s) => Sym::Lit(s.clone()),
        Tree::Var(n) => Sym::Var(vars.iter().position(|v| v == n).unwrap()),
        Tree::Un(o, a) => Sym::Un(table[*o].un.unwrap(), Box::new(reference(a, table, vars))),
        Tree::Bin(o, a, b) => Sym::Bin(
            table[*o].bin.unwrap().0,
            Box::new(reference(a, table, vars)),
            Box::new(reference(b, table, vars)),
        ),
    }
}

fn is_alpha(name: &str) -> bool {
    name.chars().next().unwrap().is_alphabetic()
}

fn render(t: &Tree, table: &[OpSpec], rng: &mut Rng, extra: bool) -> String {
    match t {
        Tree::Lit(s) => s.clone(),
        Tree::Var(n) => {
            if extra && rng.chance(1, 3) {
                format!("{{{n}}}")
            } else {
                n.clone()
            }
        }
        Tree::Un(o, a) => {
            let name = table[*o].name;
            let inner = render(a, table, rng, extra);
            match **a {
                Tree::Bin(..) => format!("{name}({inner})"),
                _ => {
                    if extra && rng.chance(1, 2) {
                        if is_alpha(name) {
                            format!("{name} {inner}")
                        } else {
                            format!("{name}{inner}")
                        }
                    } else {
                        format!("{name}({inner})")
                    }
                }
            }
        }
        Tree::Bin(o, a, b) => {
            let (_, prio, _) = table[*o].bin.unwrap();
            let name = table[*o].name;
            let side = |c: &Tree, left: bool, rng: &mut Rng| {
                let s = render(c, table, rng, extra);
                let need = match c {
                    Tree::Bin(co, _, _) => {
                        let cp = table[*co].bin.unwrap().1;
                        cp < prio || (cp == prio && !left)
                    }
                    _ => false,
                };
                if need || (extra && rng.chance(1, 6)) {
                    format!("({s})")
                } else {
                    s
                }
            };
            let l = side(a, true, rng);
            let r = side(b, false, rng);
            if is_alpha(name) || (extra && rng.chance(1, 3)) {
                format!("{l} {name} {r}")
            } else {
                format!("{l}{name}{r}")
            }
        }
    }
}

fn ac_norm(s: &Sym, comm: &BTreeMap<u8, bool>) -> Sym {
    match s {
        Sym::Un(k, a) => Sym::Un(*k, Box::new(ac_norm(a, comm))),
        Sym::Bin(k, _, _) if comm.get(k) == Some(&true) => {
            fn collect(s: &Sym, k: u8, comm: &BTreeMap<u8, bool>, out: &mut Vec<Sym>) {
                match s {
                    Sym::Bin(k2, a, b) if *k2 == k => {
                        collect(a, k, comm, out);
                        collect(b, k, comm, out);
                    }
                    _ => out.push(ac_norm(s, comm)),
                }
            }
            let mut v = vec![];
            collect(s, *k, comm, &mut v);
            v.sort();
            let mut it = v.into_iter();
            let mut acc = it.next().unwrap();
            for x in it {
                acc = Sym::Bin(*k, Box::new(acc), Box::new(x));
            }
            acc
        }
        Sym::Bin(k, a, b) => Sym::Bin(*k, Box::new(ac_norm(a, comm)), Box::new(ac_norm(b, comm))),
        _ => s.clone(),
    }
}

fn soup(seed: u64, n: usize, maxlen: usize) {
    let mut rng = Rng(seed.wrapping_mul(0x9E3779B97F4A7C15) | 1);
    std::panic::set_hook(Box::new(|_| {}));
    let mut counts: BTreeMap<String, usize> = BTreeMap::new();
    let mut ex: BTreeMap<String, Vec<String>> = BTreeMap::new();
    let mut both_ok = 0;
    for _ in 0..n {
        let table = gen_table(&mut rng, 4);
        TABLE.with(|t| *t.borrow_mut() = table.clone());
        let comm: BTreeMap<u8, bool> = table.iter().filter_map(|o| o.bin.map(|(s, _, c)| (s, c))).collect();
        let mut toks: Vec<String> = table.iter().map(|o| o.name.to_string()).collect();
        for t in ["(", ")", "(", ")", ",", "x", "y", "{z}", "1", "2", "3.5", " ", "x", "1"] { toks.push(t.to_string()); }
        let len = 1 + rng.below(maxlen);
        let mut text = String::new();
        for _ in 0..len { text.push_str(&toks[rng.below(toks.len())]); if rng.chance(1,3) { text.push(' ');} }
        let tdesc = table.iter().map(|o| format!("{}:{:?}{}", o.name, o.bin.map(|b| (b.1, b.2)), if o.un.is_some() { "u" } else { "" })).collect::<Vec<_>>().join(" ");
        let t2 = text.clone();
        let r = std::panic::catch_unwind(move || {
            let f = FX::parse(&t2);
            let fw = FX::parse_wo_compile(&t2);
            let d = DX::parse(&t2);
            let mut out: Vec<(String, Result<(Vec<String>, Sym), String>)> = vec![];
            let ev = |vn: &[String], r: exmex::ExResult<Sym>| r.map(|v| (vn.to_vec(), v)).map_err(|e| e.msg().to_string());
            match f { Ok(f) => { let vals: Vec<Sym> = (0..f.var_names().len()).map(Sym::Var).collect(); out.push(("flat".into(), ev(f.var_names(), f.eval(&vals))));
                   let d2 = f.clone().to_deepex(); match d2 { Ok(d2) => { out.push(("flat2deep".into(), ev(d2.var_names(), d2.eval(&vals)))); let f3 = FX::from_deepex(d2).unwrap(); out.push(("flat2deep2flat".into(), ev(f3.var_names(), f3.eval(&vals)))); }, Err(e) => out.push(("flat2deep".into(), Err(format!("CONVERR {}", e.msg())))) } }
                Err(e) => out.push(("flat".into(), Err(format!("PARSEERR {}", e.msg())))) }
            match fw { Ok(f) => { let vals: Vec<Sym> = (0..f.var_names().len()).map(Sym::Var).collect(); out.push(("flatwo".into(), ev(f.var_names(), f.eval(&vals)))); }
                Err(e) => out.push(("flatwo".into(), Err(format!("PARSEERR {}", e.msg())))) }
            match d { Ok(d) => { let vals: Vec<Sym> = (0..d.var_names().len()).map(Sym::Var).collect(); out.push(("deep".into(), ev(d.var_names(), d.eval(&vals))));
                    let f2 = FX::from_deepex(d).unwrap(); out.push(("deep2flat".into(), ev(f2.var_names(), f2.eval(&vals)))); }
                Err(e) => out.push(("deep".into(), Err(format!("PARSEERR {}", e.msg())))) }
            out
        });
        let mut rec = |k: String, d: String| { *counts.entry(k.clone()).or_default() += 1; let v = ex.entry(k).or_default(); if v.len() < 8 { v.push(format!("{text:?}   [{tdesc}] {d}")); } };
        match r {
            Err(_) => rec("PANIC".into(), String::new()),
            Ok(out) => {
                let parse_ok: Vec<bool> = out.iter().filter(|(k, _)| k == "flat" || k == "deep" || k == "flatwo").map(|(_, r)| !matches!(r, Err(e) if e.starts_with("PARSEERR"))).collect();
                if parse_ok.iter().any(|b| *b) && !parse_ok.iter().all(|b| *b) { rec("accept-mismatch".into(), format!("{:?}", out.iter().map(|(k, r)| (k.clone(), r.as_ref().map(|_| ()).map_err(|e| e.clone()))).collect::<Vec<_>>())); }
                if parse_ok.iter().all(|b| *b) {
                    both_ok += 1;
                    let base = &out[0].1;
                    for (k, r) in &out[1..] {
                        let same = match (base, r) { (Ok((vn, v)), Ok((vn2, v2))) => vn == vn2 && ac_norm(v, &comm) == ac_norm(v2, &comm), (Err(_), Err(_)) => true, _ => false };
                        if !same { rec(format!("differs:{k}"), format!("flat={base:?} {k}={r:?}")); }
                    }
                }
            }
        }
    }
    println!("soup cases {n}, all parsers accepted {both_ok}");
    for (k, c) in &counts { println!("== {k}: {c}"); for f in &ex[k] { println!("    {f}"); } }
}


fn damage_run(seed: u64, n: usize) {
    let mut rng = Rng(seed.wrapping_mul(0x9E3779B97F4A7C15) | 1);
    std::panic::set_hook(Box::new(|_| {}));
    let mut accepted: BTreeMap<String, Vec<String>> = BTreeMap::new();
    let mut total = 0usize;
    for _ in 0..n {
        let table = gen_table(&mut rng, 4);
        TABLE.with(|t| *t.borrow_mut() = table.clone());
        let tree = gen_tree(&mut rng, &table, 3, 5);
        let text = render(&tree, &table, &mut rng, true);
        // positions outside braces
        let chars: Vec<(usize, char)> = text.char_indices().collect();
        let mut outside = vec![]; let mut depth = 0;
        for (i, c) in &chars { if *c == '{' { depth += 1; } if depth == 0 { outside.push(*i); } if *c == '}' { depth -= 1; } }
        let mut variants: Vec<(String, String)> = vec![];
        for &i in &outside { let c = text[i..].chars().next().unwrap();
            if c == '(' || c == ')' { let mut t = text.clone(); t.remove(i); variants.push(("del-paren".into(), t)); }
            for ins in ["(", ")", "$", "?", "@", "\\", "~", "'", "\t", "\n"] { let mut t = text.clone(); t.insert_str(i, ins); variants.push((format!("ins {ins:?}"), t)); }
        }
        for ins in ["(", ")", "$"] { let mut t = text.clone(); t.push_str(ins); variants.push((format!("app {ins:?}"), t)); }
        for o in table.iter().filter(|o| o.bin.is_some()) { variants.push(("app-binop".into(), format!("{text} {}", o.name))); variants.push(("app-binop-sp".into(), format!("{text} {} ", o.name))); }
        // extra operand after each operand token end (digit or identifier char or '}' or ')') when next char is not part of same token
        let b = text.as_bytes();
        for i in 0..b.len() { let c = b[i] as char; let nxt = if i + 1 < b.len() { b[i + 1] as char } else { ' ' };
            let in_out = outside.contains(&i);
            let is_operand_end = (c.is_ascii_digit() && !nxt.is_ascii_digit() && nxt != '.' && in_out) || (matches!(c, 'x' | 'y' | 'z') && in_out && !nxt.is_alphanumeric() && !(i > 0 && (b[i - 1] as char).is_alphabetic())) || c == '}' || (c == ')' && in_out);
            if is_operand_end { for ins in [" 7", " w", " {q}", " (7)"] { let mut t = text.clone(); t.insert_str(i + 1, ins); variants.push((format!("operand-after {ins:?}"), t)); } }
            let prv = if i > 0 { b[i - 1] as char } else { ' ' };
            let is_operand_start = in_out && ((c.is_ascii_digit() && !prv.is_ascii_digit() && prv != '.') || (matches!(c, 'x' | 'y' | 'z') && !prv.is_alphanumeric() && prv != '{' && !nxt.is_alphabetic()) || c == '{');
            if is_operand_start { for ins in ["7 ", "w ", "{q} "] { let mut t = text.clone(); t.insert_str(i, ins); variants.push((format!("operand-before {ins:?}"), t)); } }
        }
        for (kind, t) in variants {
            total += 1;
            let t2 = t.clone();
            let r = std::panic::catch_unwind(move || (FX::parse(&t2).is_ok(), FX::parse_wo_compile(&t2).is_ok(), DX::parse(&t2).is_ok()));
            match r { Ok((false, false, false)) => {}, other => { let v = accepted.entry(kind).or_default(); if v.len() < 6 { v.push(format!("{text:?} -> {t:?}: {other:?}")); } else { v.push(String::new()); } } }
        }
    }
    println!("damage variants {total}");
    for (k, v) in &accepted { println!("== ACCEPTED {k}: {}", v.len()); for x in v.iter().filter(|x| !x.is_empty()) { println!("    {x}"); } }
}

fn main() {
    if std::env::var("DAMAGE").is_ok() { let a: Vec<String> = std::env::args().collect(); damage_run(a[1].parse().unwrap(), a[2].parse().unwrap()); return; }
    if std::env::var("SOUP").is_ok() { let a: Vec<String> = std::env::args().collect(); soup(a[1].parse().unwrap(), a[2].parse().unwrap(), a[3].parse().unwrap()); return; }
    let args: Vec<String> = std::env::args().collect();
    let seed: u64 = args.get(1).map(|s| s.parse().unwrap()).unwrap_or(1);
    let n: usize = args.get(2).map(|s| s.parse().unwrap()).unwrap_or(20000);
    let prio_range: usize = args.get(3).map(|s| s.parse().unwrap()).unwrap_or(4);
    let depth: usize = args.get(4).map(|s| s.parse().unwrap()).unwrap_or(3);
    let extra: bool = args.get(5).map(|s| s == "1").unwrap_or(false);
    let mut rng = Rng(seed.wrapping_mul(0x9E3779B97F4A7C15) | 1);
    let mut fails: BTreeMap<&'static str, Vec<String>> = BTreeMap::new();
    let mut counts: BTreeMap<&'static str, usize> = BTreeMap::new();
    std::panic::set_hook(Box::new(|_| {}));
    for _case in 0..n {
        let table = gen_table(&mut rng, prio_range);
        TABLE.with(|t| *t.borrow_mut() = table.clone());
        let comm: BTreeMap<u8, bool> =
            table.iter().filter_map(|o| o.bin.map(|(s, _, c)| (s, c))).collect();
        let tree = gen_tree(&mut rng, &table, depth, 5);
        let mut vars = vec![];
        vars_of(&tree, &mut vars);
        vars.sort();
        let refv = ac_norm(&reference(&tree, &table, &vars), &comm);
        let text = render(&tree, &table, &mut rng, extra);
        let vals: Vec<Sym> = (0..vars.len()).map(Sym::Var).collect();
        let tdesc = table
            .iter()
            .map(|o| format!("{}:{:?}{}", o.name, o.bin.map(|b| (b.1, b.2)), if o.un.is_some() { "u" } else { "" }))
            .collect::<Vec<_>>()
            .join(" ");
        let mut record = |kind: &'static str, detail: String| {
            *counts.entry(kind).or_default() += 1;
            let v = fails.entry(kind).or_default();
            if v.len() < 6 {
                v.push(format!("{text}    [{tdesc}] {detail}"));
            }
        };
        let check = |name: &'static str, got: Result<Result<Sym, String>, ()>, record: &mut dyn FnMut(&'static str, String)| match got {
            Err(()) => record(Box::leak(format!("{name}:panic").into_boxed_str()), String::new()),
            Ok(Err(e)) => record(Box::leak(format!("{name}:err").into_boxed_str()), e),
            Ok(Ok(v)) => {
                let nv = ac_norm(&v, &comm);
                if nv != refv {
                    record(Box::leak(format!("{name}:wrong").into_boxed_str()), format!("got {nv:?} want {refv:?}"))
                }
            }
        };
        let t2 = text.clone();
        let v2 = vals.clone();
        let r = std::panic::catch_unwind(move || {
            FX::parse_wo_compile(&t2).and_then(|e| e.eval(&v2)).map_err(|e| e.msg().to_string())
        })
        .map_err(|_| ());
        check("flat_wo", r, &mut record);
        let t2 = text.clone();
        let v2 = vals.clone();
        let r = std::panic::catch_unwind(move || {
            FX::parse(&t2).and_then(|e| e.eval(&v2)).map_err(|e| e.msg().to_string())
        })
        .map_err(|_| ());
        check("flat", r, &mut record);
        let t2 = text.clone();
        let v2 = vals.clone();
        let r = std::panic::catch_unwind(move || {
            DX::parse(&t2).and_then(|e| e.eval(&v2)).map_err(|e| e.msg().to_string())
        })
        .map_err(|_| ());
        check("deep", r, &mut record);
        let t2 = text.clone();
        let v2 = vals.clone();
        let r = std::panic::catch_unwind(move || {
            FX::parse_wo_compile(&t2)
                .and_then(|e| e.to_deepex())
                .and_then(|e| e.eval(&v2))
                .map_err(|e| e.msg().to_string())
        })
        .map_err(|_| ());
        check("flatwo_to_deep", r, &mut record);
        let t2 = text.clone();
        let v2 = vals.clone();
        let r = std::panic::catch_unwind(move || {
            DX::parse(&t2)
                .and_then(|e| FX::from_deepex(e))
                .and_then(|e| e.eval(&v2))
                .map_err(|e| e.msg().to_string())
        })
        .map_err(|_| ());
        check("deep_to_flat", r, &mut record);
        let t2 = text.clone();
        let v2 = vals.clone();
        let r = std::panic::catch_unwind(move || {
            let d = DX::parse(&t2)?;
            let u = d.unparse().to_string();
            let e = FX::parse(&u)?;
            e.eval(&v2)
        })
        .map(|r| r.map_err(|e| e.msg().to_string()))
        .map_err(|_| ());
        check("deep_unparse_reparse", r, &mut record);
        // ---- operator listings
        {
            fn collect(t: &Tree, table: &[OpSpec], un_all: &mut Vec<String>, bin_all: &mut Vec<String>, un_var: &mut Vec<String>, bin_var: &mut Vec<String>, const_op: &mut bool) -> bool {
                match t {
                    Tree::Lit(_) => false,
                    Tree::Var(_) => true,
                    Tree::Un(o, a) => { let v = collect(a, table, un_all, bin_all, un_var, bin_var, const_op); un_all.push(table[*o].name.to_string()); if v { un_var.push(table[*o].name.to_string()); } else { *const_op = true; } v }
                    Tree::Bin(o, a, b) => { let va = collect(a, table, un_all, bin_all, un_var, bin_var, const_op); let vb = collect(b, table, un_all, bin_all, un_var, bin_var, const_op); bin_all.push(table[*o].name.to_string()); if va || vb { bin_var.push(table[*o].name.to_string()); } else { *const_op = true; } va || vb }
                }
            }
            let (mut ua, mut ba, mut uv, mut bv, mut co) = (vec![], vec![], vec![], vec![], false);
            collect(&tree, &table, &mut ua, &mut ba, &mut uv, &mut bv, &mut co);
            let t2 = text.clone();
            let r = std::panic::catch_unwind(move || {
                let f = FX::parse(&t2).unwrap(); let d = DX::parse(&t2).unwrap(); let fw = FX::parse_wo_compile(&t2).unwrap();
                let f2 = FX::from_deepex(d.clone()).unwrap(); let d2 = f.clone().to_deepex().unwrap();
                vec![("flat", f.unary_reprs().to_vec(), f.binary_reprs().to_vec(), f.operator_reprs().to_vec()),
                     ("deep", d.unary_reprs().to_vec(), d.binary_reprs().to_vec(), d.operator_reprs().to_vec()),
                     ("flatwo", fw.unary_reprs().to_vec(), fw.binary_reprs().to_vec(), fw.operator_reprs().to_vec()),
                     ("deep2flat", f2.unary_reprs().to_vec(), f2.binary_reprs().to_vec(), f2.operator_reprs().to_vec()),
                     ("flat2deep", d2.unary_reprs().to_vec(), d2.binary_reprs().to_vec(), d2.operator_reprs().to_vec())]
            });
            if let Ok(ls) = r {
                let sorted_dedup = |v: &Vec<String>| { let mut w = v.clone(); w.sort(); w.dedup(); &w == v };
                for (nm, u, b, a) in &ls {
                    if !sorted_dedup(u) || !sorted_dedup(b) || !sorted_dedup(a) { record("listing:unsorted", format!("{nm} {u:?} {b:?} {a:?}")); }
                    if !u.iter().all(|x| ua.contains(x)) || !b.iter().all(|x| ba.contains(x)) { record("listing:extra", format!("{nm} {u:?} {b:?} all-un {ua:?} all-bin {ba:?}")); }
                    if !uv.iter().all(|x| u.contains(x)) || !bv.iter().all(|x| b.contains(x)) { record("listing:missing", format!("{nm} {u:?} {b:?} var-un {uv:?} var-bin {bv:?}")); }
                    let mut all = u.clone(); all.extend(b.clone()); all.sort(); all.dedup();
                    if &all != a { record("listing:operator_reprs!=union", format!("{nm} {u:?} {b:?} {a:?}")); }
                }
                if !co { for (nm, u, b, _) in &ls[1..] { if u != &ls[0].1 || b != &ls[0].2 { record("listing:flat!=other without const subexpr", format!("{nm} {u:?} {b:?} flat {:?} {:?}", ls[0].1, ls[0].2)); } } }
            } else { record("listing:panic", String::new()); }
        }
    }
    println!("cases {n}");
    for (k, c) in &counts {
        println!("== {k}: {c}");
        for f in &fails[k] {
            println!("    {f}");
        }
    }
}
