use exmex::prelude::*;
use exmex::{DeepEx, Express, Differentiate};
fn run(depth: usize, stack: usize, what: String) {
    let h = std::thread::Builder::new().stack_size(stack).spawn(move || {
        let mut s = String::new();
        for _ in 0..depth { s.push_str("(1+x*"); }
        s.push_str("x");
        for _ in 0..depth { s.push_str(")"); }
        let t0 = std::time::Instant::now();
        match what.as_str() {
            "flat" => { let f = FlatEx::<f64>::parse(&s).unwrap(); println!("{}", f.eval(&[0.5]).unwrap()); }
            "deep" => { let f = DeepEx::<f64>::parse(&s).unwrap(); println!("{}", f.eval(&[0.5]).unwrap()); }
            "f2d" => { let f = FlatEx::<f64>::parse(&s).unwrap().to_deepex().unwrap(); println!("{}", f.eval(&[0.5]).unwrap()); }
            "d2f" => { let f = FlatEx::from_deepex(DeepEx::<f64>::parse(&s).unwrap()).unwrap(); println!("{}", f.eval(&[0.5]).unwrap()); }
            "pd" => { let f = DeepEx::<f64>::parse(&s).unwrap().partial(0).unwrap(); println!("{} len {}", f.eval(&[0.5]).unwrap(), f.unparse().len()); }
            "pf" => { let f = FlatEx::<f64>::parse(&s).unwrap().partial(0).unwrap(); println!("{} len {}", f.eval(&[0.5]).unwrap(), f.unparse().len()); }
            _ => {}
        }
        println!("  {what} depth {depth} stack {stack} time {:?}", t0.elapsed());
    }).unwrap();
    h.join().unwrap();
}
fn main() {
    let a: Vec<String> = std::env::args().collect();
    run(a[1].parse().unwrap(), a[2].parse().unwrap(), a[3].clone());
}
