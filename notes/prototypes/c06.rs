use exmex::prelude::*;
use exmex::{DeepEx, Express, Differentiate, Val, Calculate};
use std::collections::BTreeMap;
pub struct Rng(u64);
impl Rng { fn next(&mut self) -> u64 { self.0 ^= self.0 << 13; self.0 ^= self.0 >> 7; self.0 ^= self.0 << 17; self.0 } fn below(&mut self, n: usize) -> usize { (self.next() % n as u64) as usize } }
fn follow_f64(s: &str) {
    if let Ok(f) = FlatEx::<f64>::parse(s) {
        let n = f.var_names().len(); let v = vec![0.7; n];
        let _ = f.eval(&v); let _ = f.eval_relaxed(&v); let _ = f.eval_vec(v.clone()); let _ = f.eval_iter(v.clone().into_iter());
        let _ = f.unparse(); let _ = f.unary_reprs(); let _ = f.binary_reprs(); let _ = f.operator_reprs();
        if let Ok(d) = f.clone().to_deepex() { let _ = d.eval(&v); let _ = d.unparse(); let _ = d.operator_reprs(); if let Ok(f2) = FlatEx::<f64>::from_deepex(d.clone()) { let _ = f2.eval(&v); } if n > 0 { let _ = d.partial(0).map(|p| p.eval(&v)); } }
        if n > 0 { let _ = f.clone().partial(n - 1).map(|p| p.eval(&v)); let _ = f.clone().partial_relaxed(0, exmex::MissingOpMode::PerOperand).map(|p| p.eval(&v)); let _ = f.clone().partial_relaxed(0, exmex::MissingOpMode::None).map(|p| p.eval(&v)); }
        let _ = f.clone().operate_unary("sin").map(|p| p.eval(&v));
    }
    if let Ok(f) = FlatEx::<f64>::parse_wo_compile(s) { let n = f.var_names().len(); let v = vec![0.7; n]; let _ = f.eval(&v); let _ = f.clone().to_deepex().map(|d| d.eval(&v)); }
    if let Ok(d) = DeepEx::<f64>::parse(s) { let n = d.var_names().len(); let v = vec![0.7; n]; let _ = d.eval(&v); let _ = d.unparse(); if let Ok(f2) = FlatEx::<f64>::from_deepex(d.clone()) { let _ = f2.eval(&v); let _ = f2.to_deepex(); } if n > 0 { let _ = d.partial(0).map(|p| p.eval(&v)); } }
    let _ = exmex::eval_str::<f64>(s); let _ = exmex::eval_str::<f32>(s);
    let _ = exmex::statements::line_2_statement::<f64, exmex::FloatOpsFactory<f64>, exmex::NumberMatcher>(s);
}
fn follow_val(s: &str) {
    if let Ok(f) = exmex::parse_val::<i32, f64>(s) { let n = f.var_names().len(); let v: Vec<Val<i32,f64>> = vec![Val::Float(0.7); n]; let _ = f.eval(&v); let vi: Vec<Val<i32,f64>> = vec![Val::Int(3); n]; let _ = f.eval(&vi);
        if let Ok(d) = f.clone().to_deepex() { let _ = d.eval(&v); let _ = d.unparse(); if n > 0 { let _ = d.partial(0).map(|p| p.eval(&v)); } } }
    let _ = exmex::line_2_statement_val::<i32, f64>(s);
    let _ = exmex::parse_val::<i64, f32>(s);
}
fn main() {
    let a: Vec<String> = std::env::args().collect();
    let mut r = Rng(a[1].parse::<u64>().unwrap().wrapping_mul(0x9E3779B97F4A7C15) | 1);
    let n: usize = a[2].parse().unwrap(); let maxlen: usize = a[3].parse().unwrap();
    let toks = ["+", "-", "*", "/", "^", "sin", "cos", "ln", "abs", "atan2", "min", "max", "(", ")", "(", ")", ",", "x", "y", "{z}", "{", "}", "1", "2", "3.5", ".5", "4.", " ", " ", "PI", "e", "E", "π", "τ", "α", "ab", "=", "if", "else", ">", "<=", "==", "&&", "true", "[1,2]", "[", "]", ".", "%", "<<", "fact", "to_int", "1e10", "99999999999", "\t", "é", "👍", "\\", "#", "sqrt", "log", "log2", "exp", "tanh", "signum", "0", "0.0", "-", "-"];
    let msgs = std::sync::Arc::new(std::sync::Mutex::new(BTreeMap::<String, (usize, String)>::new()));
    let cur = std::sync::Arc::new(std::sync::Mutex::new(String::new()));
    { let msgs = msgs.clone(); let cur = cur.clone(); std::panic::set_hook(Box::new(move |info| { let loc = info.location().map(|l| format!("{}:{}", l.file(), l.line())).unwrap_or_default(); let mut m = msgs.lock().unwrap(); let e = m.entry(loc).or_insert((0, cur.lock().unwrap().clone())); e.0 += 1; })); }
    for _ in 0..n {
        let len = 1 + r.below(maxlen); let mut s = String::new();
        for _ in 0..len { s.push_str(toks[r.below(toks.len())]); }
        *cur.lock().unwrap() = s.clone();
        let s2 = s.clone(); let _ = std::panic::catch_unwind(move || follow_f64(&s2));
        let s2 = s.clone(); let _ = std::panic::catch_unwind(move || follow_val(&s2));
    }
    for (k, (c, ex)) in msgs.lock().unwrap().iter() { println!("PANIC at {k}: {c} e.g. {ex:?}"); }
    println!("done {n}");
}
