// Free term algebra data type + runtime-configurable operator table (scratch probe)
use exmex::{BinOp, MakeOperators, MatchLiteral, Operator};
use std::cell::RefCell;
use std::fmt;
use std::str::FromStr;

#[derive(Clone, PartialEq, Eq, Hash, Default, PartialOrd, Ord)]
pub enum Sym {
    #[default]
    Hole,
    Lit(String),
    Var(usize),
    Un(u8, Box<Sym>),
    Bin(u8, Box<Sym>, Box<Sym>),
}

impl fmt::Debug for Sym {
    fn fmt(&self, f: &mut fmt::Formatter<'_>) -> fmt::Result {
        match self {
            Sym::Hole => write!(f, "#H"),
            Sym::Lit(s) => write!(f, "{s}"),
            Sym::Var(i) => write!(f, "#V{i};"),
            Sym::Un(k, a) => write!(f, "#U{k}<{a:?}>"),
            Sym::Bin(k, a, b) => write!(f, "#B{k}<{a:?}|{b:?}>"),
        }
    }
}

fn parse_sym(s: &str) -> Option<(Sym, &str)> {
    if let Some(r) = s.strip_prefix("#H") {
        return Some((Sym::Hole, r));
    }
    if let Some(r) = s.strip_prefix("#V") {
        let n = r.find(';')?;
        return Some((Sym::Var(r[..n].parse().ok()?), &r[n + 1..]));
    }
    if let Some(r) = s.strip_prefix("#U") {
        let n = r.find('<')?;
        let k: u8 = r[..n].parse().ok()?;
        let (a, r) = parse_sym(&r[n + 1..])?;
        let r = r.strip_prefix('>')?;
        return Some((Sym::Un(k, Box::new(a)), r));
    }
    if let Some(r) = s.strip_prefix("#B") {
        let n = r.find('<')?;
        let k: u8 = r[..n].parse().ok()?;
        let (a, r) = parse_sym(&r[n + 1..])?;
        let r = r.strip_prefix('|')?;
        let (b, r) = parse_sym(r)?;
        let r = r.strip_prefix('>')?;
        return Some((Sym::Bin(k, Box::new(a), Box::new(b)), r));
    }
    // plain literal: digits with optional dot
    let b = s.as_bytes();
    let mut n = 0;
    while n < b.len() && b[n].is_ascii_digit() {
        n += 1;
    }
    if n == 0 {
        return None;
    }
    if n + 1 < b.len() && b[n] == b'.' && b[n + 1].is_ascii_digit() {
        n += 1;
        while n < b.len() && b[n].is_ascii_digit() {
            n += 1;
        }
    }
    Some((Sym::Lit(s[..n].to_string()), &s[n..]))
}

impl FromStr for Sym {
    type Err = String;
    fn from_str(s: &str) -> Result<Self, String> {
        match parse_sym(s) {
            Some((t, "")) => Ok(t),
            _ => Err(format!("bad sym literal {s}")),
        }
    }
}

#[derive(Clone, Debug, PartialEq, Eq, PartialOrd, Ord)]
pub struct SymMatcher;
impl MatchLiteral for SymMatcher {
    fn is_literal(text: &str) -> Option<&str> {
        let (_, rest) = parse_sym(text)?;
        let n = text.len() - rest.len();
        if n == 0 {
            None
        } else {
            Some(&text[..n])
        }
    }
}

#[derive(Clone, Debug)]
pub struct OpSpec {
    pub name: &'static str,
    pub bin: Option<(u8, i64, bool)>, // slot, prio, commutative
    pub un: Option<u8>,
    pub constant: Option<Sym>,
}

thread_local! {
    pub static TABLE: RefCell<Vec<OpSpec>> = RefCell::new(vec![]);
}

macro_rules! mkfns {
    ($($i:literal $b:ident $u:ident),*) => {
        $(fn $b(a: Sym, b: Sym) -> Sym { Sym::Bin($i, Box::new(a), Box::new(b)) }
          fn $u(a: Sym) -> Sym { Sym::Un($i, Box::new(a)) })*
        pub const BINS: &[fn(Sym, Sym) -> Sym] = &[$($b),*];
        pub const UNS: &[fn(Sym) -> Sym] = &[$($u),*];
    };
}
mkfns!(0 b0 u0, 1 b1 u1, 2 b2 u2, 3 b3 u3, 4 b4 u4, 5 b5 u5, 6 b6 u6, 7 b7 u7, 8 b8 u8, 9 b9 u9,
       10 b10 u10, 11 b11 u11, 12 b12 u12, 13 b13 u13, 14 b14 u14, 15 b15 u15);

#[derive(Clone, Debug, PartialEq, Eq, PartialOrd, Ord)]
pub struct SymOps;
impl MakeOperators<Sym> for SymOps {
    fn make<'a>() -> Vec<Operator<'a, Sym>> {
        TABLE.with(|t| {
            t.borrow()
                .iter()
                .map(|o| {
                    if let Some(c) = &o.constant {
                        Operator::make_constant(o.name, c.clone())
                    } else {
                        match (o.bin, o.un) {
                            (Some((s, p, c)), Some(u)) => Operator::make_bin_unary(
                                o.name,
                                BinOp { apply: BINS[s as usize], prio: p, is_commutative: c },
                                UNS[u as usize],
                            ),
                            (Some((s, p, c)), None) => Operator::make_bin(
                                o.name,
                                BinOp { apply: BINS[s as usize], prio: p, is_commutative: c },
                            ),
                            (None, Some(u)) => Operator::make_unary(o.name, UNS[u as usize]),
                            _ => panic!("bad spec"),
                        }
                    }
                })
                .collect()
        })
    }
}
