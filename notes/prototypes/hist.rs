#[path = "../sym.rs"]
mod sym;
use exmex::prelude::*;
use exmex::{Calculate, DeepEx, Express};
use std::collections::BTreeMap;
use sym::*;
type FX = FlatEx<Sym, SymOps, SymMatcher>;
type DX<'a> = DeepEx<'a, Sym, SymOps, SymMatcher>;
pub struct Rng(u64);
impl Rng {
    fn next(&mut self) -> u64 { self.0 ^= self.0 << 13; self.0 ^= self.0 >> 7; self.0 ^= self.0 << 17; self.0 }
    fn below(&mut self, n: usize) -> usize { (self.next() % n as u64) as usize }
}
// reference expression: a Sym over named vars: use Sym::Lit("$name") for vars
#[derive(Clone, Debug, PartialEq)]
enum R { Lit(String), Var(String), Un(u8, Box<R>), Bin(u8, Box<R>, Box<R>) }
fn rvars(r: &R, out: &mut Vec<String>) { match r { R::Var(n) => if !out.contains(n) { out.push(n.clone()) }, R::Un(_, a) => rvars(a, out), R::Bin(_, a, b) => { rvars(a, out); rvars(b, out) } _ => {} } }
fn rval(r: &R, vars: &[String]) -> Sym { match r { R::Lit(s) => Sym::Lit(s.clone()), R::Var(n) => Sym::Var(vars.iter().position(|v| v == n).unwrap()), R::Un(k, a) => Sym::Un(*k, Box::new(rval(a, vars))), R::Bin(k, a, b) => Sym::Bin(*k, Box::new(rval(a, vars)), Box::new(rval(b, vars))) } }
fn rsubs(r: &R, m: &BTreeMap<String, R>) -> R { match r { R::Var(n) => m.get(n).cloned().unwrap_or(r.clone()), R::Un(k, a) => R::Un(*k, Box::new(rsubs(a, m))), R::Bin(k, a, b) => R::Bin(*k, Box::new(rsubs(a, m)), Box::new(rsubs(b, m))), _ => r.clone() } }
fn ac_norm(s: &Sym, comm: &[u8]) -> Sym {
    match s {
        Sym::Un(k, a) => Sym::Un(*k, Box::new(ac_norm(a, comm))),
        Sym::Bin(k, _, _) if comm.contains(k) => {
            fn collect(s: &Sym, k: u8, comm: &[u8], out: &mut Vec<Sym>) { match s { Sym::Bin(k2, a, b) if *k2 == k => { collect(a, k, comm, out); collect(b, k, comm, out); } _ => out.push(ac_norm(s, comm)) } }
            let mut v = vec![]; collect(s, *k, comm, &mut v); v.sort();
            let mut it = v.into_iter(); let mut acc = it.next().unwrap(); for x in it { acc = Sym::Bin(*k, Box::new(acc), Box::new(x)); } acc
        }
        Sym::Bin(k, a, b) => Sym::Bin(*k, Box::new(ac_norm(a, comm)), Box::new(ac_norm(b, comm))),
        _ => s.clone(),
    }
}
fn main() {
    let a: Vec<String> = std::env::args().collect();
    let seed: u64 = a[1].parse().unwrap(); let n: usize = a[2].parse().unwrap();
    let comm_on = std::env::var("NOCOMM").is_err();
    let mut rng = Rng(seed.wrapping_mul(0x9E3779B97F4A7C15) | 1);
    // fixed table, distinct prios
    let table = vec![
        OpSpec { name: "+", bin: Some((0, 1, comm_on)), un: Some(1), constant: None },
        OpSpec { name: "-", bin: Some((2, 2, false)), un: Some(3), constant: None },
        OpSpec { name: "*", bin: Some((4, 3, comm_on)), un: None, constant: None },
        OpSpec { name: "/", bin: Some((5, 4, false)), un: None, constant: None },
        OpSpec { name: "^", bin: Some((6, 5, false)), un: None, constant: None },
        OpSpec { name: "sin", bin: None, un: Some(7), constant: None },
        OpSpec { name: "ln", bin: None, un: Some(8), constant: None },
    ];
    TABLE.with(|t| *t.borrow_mut() = table.clone());
    let comm: Vec<u8> = if comm_on { vec![0, 4] } else { vec![] };
    let seeds: Vec<(&str, R)> = {
        use R::*;
        let v = |s: &str| Box::new(Var(s.to_string())); let l = |s: &str| Box::new(Lit(s.to_string()));
        vec![
            ("x", *v("x")), ("y", *v("y")), ("2", *l("2")), ("x+y", Bin(0, v("x"), v("y"))), ("x*2", Bin(4, v("x"), l("2"))),
            ("sin(z)", Un(7, v("z"))), ("a-b/2", Bin(2, v("a"), Box::new(Bin(5, v("b"), l("2"))))), ("3", *l("3")),
            ("-x", Un(3, v("x"))), ("2*3", Bin(4, l("2"), l("3"))), ("x^2", Bin(6, v("x"), l("2"))), ("{b b}/a", Bin(5, v("b b"), v("a"))),
            ("x-1-2", Bin(2, Box::new(Bin(2, v("x"), l("1"))), l("2"))), ("2+x+3", Bin(0, Box::new(Bin(0, l("2"), v("x"))), l("3"))),
        ]
    };
    std::panic::set_hook(Box::new(|_| {}));
    let mut bad: BTreeMap<String, Vec<String>> = BTreeMap::new();
    let mut total_steps = 0;
    for _ in 0..n {
        let use_flat = rng.below(2) == 0;
        let mut pool: Vec<(String, R, Result<FX, DX>)> = seeds.iter().map(|(s, r)| (s.to_string(), r.clone(), if use_flat { Ok(FX::parse(s).unwrap()) } else { Err(DX::parse(s).unwrap()) })).collect();
        let mut hist = vec![];
        for _step in 0..(1 + rng.below(5)) {
            let i = rng.below(pool.len()); let j = rng.below(pool.len());
            let kind = rng.below(3);
            let bins = [("+", 0u8), ("-", 2), ("*", 4), ("/", 5), ("^", 6)]; let uns = [("+", 1u8), ("-", 3), ("sin", 7), ("ln", 8)];
            let (desc, newr, newe): (String, R, Result<Result<FX, DX>, String>) = match kind {
                0 => { let (nm, k) = bins[rng.below(bins.len())];
                    let r = R::Bin(k, Box::new(pool[i].1.clone()), Box::new(pool[j].1.clone()));
                    let (ei, ej) = (pool[i].2.clone(), pool[j].2.clone());
                    let e = std::panic::catch_unwind(move || match (ei, ej) { (Ok(a), Ok(b)) => a.operate_binary(b, nm).map(Ok), (Err(a), Err(b)) => a.operate_binary(b, nm).map(Err), _ => unreachable!() });
                    (format!("({}) {nm} ({})", pool[i].0, pool[j].0), r, match e { Ok(Ok(e)) => Ok(e), Ok(Err(e)) => Err(format!("ERR {}", e.msg())), Err(_) => Err("PANIC".into()) }) }
                1 => { let (nm, k) = uns[rng.below(uns.len())];
                    let r = R::Un(k, Box::new(pool[i].1.clone()));
                    let ei = pool[i].2.clone();
                    let e = std::panic::catch_unwind(move || match ei { Ok(a) => a.operate_unary(nm).map(Ok), Err(a) => a.operate_unary(nm).map(Err) });
                    (format!("{nm}[{}]", pool[i].0), r, match e { Ok(Ok(e)) => Ok(e), Ok(Err(e)) => Err(format!("ERR {}", e.msg())), Err(_) => Err("PANIC".into()) }) }
                _ => { // subs: map some vars of pool[i] to pool entries
                    let mut vs = vec![]; rvars(&pool[i].1, &mut vs);
                    let mut m = BTreeMap::new(); let mut me: BTreeMap<String, Result<FX, DX>> = BTreeMap::new(); let mut d = String::new();
                    for v in vs { if rng.below(2) == 0 { let k = rng.below(pool.len()); m.insert(v.clone(), pool[k].1.clone()); me.insert(v.clone(), pool[k].2.clone()); d.push_str(&format!("{v}:=({}) ", pool[k].0)); } }
                    let r = rsubs(&pool[i].1, &m);
                    let ei = pool[i].2.clone();
                    let e = std::panic::catch_unwind(move || match ei {
                        Ok(a) => a.subs(&mut |v: &str| me.get(v).map(|e| e.clone().ok().unwrap())).map(Ok),
                        Err(a) => a.subs(&mut |v: &str| me.get(v).map(|e| e.clone().err().unwrap())).map(Err) });
                    (format!("[{}] subs {d}", pool[i].0), r, match e { Ok(Ok(e)) => Ok(e), Ok(Err(e)) => Err(format!("ERR {}", e.msg())), Err(_) => Err("PANIC".into()) }) }
            };
            hist.push(desc.clone()); total_steps += 1;
            match newe {
                Err(e) => { bad.entry(e.chars().take(40).collect()).or_default().push(hist.join(" ; ")); break; }
                Ok(e) => {
                    let mut vs = vec![]; rvars(&newr, &mut vs); vs.sort();
                    let vals: Vec<Sym> = (0..vs.len()).map(Sym::Var).collect();
                    let (names, val, unp) = match &e { Ok(f) => (f.var_names().to_vec(), f.eval(&vals), f.unparse().to_string()), Err(d) => (d.var_names().to_vec(), d.eval(&vals), d.unparse().to_string()) };
                    if names != vs { bad.entry("varnames".into()).or_default().push(format!("{} got {names:?} want {vs:?}", hist.join(" ; "))); break; }
                    let want = ac_norm(&rval(&newr, &vs), &comm);
                    match val { Ok(v) => if ac_norm(&v, &comm) != want { bad.entry("value".into()).or_default().push(format!("{} got {:?} want {want:?} unparse {unp}", hist.join(" ; "), ac_norm(&v, &comm))); break; },
                        Err(e) => { bad.entry("evalerr".into()).or_default().push(format!("{} {}", hist.join(" ; "), e.msg())); break; } }
                    // reparse of unparse
                    let rp = FX::parse(&unp).and_then(|f| f.eval(&vals));
                    match rp { Ok(v) => if ac_norm(&v, &comm) != want { bad.entry("reparse-value".into()).or_default().push(format!("{} unparse {unp}", hist.join(" ; "))); }, Err(e) => { bad.entry("reparse-err".into()).or_default().push(format!("{} unparse {unp}: {}", hist.join(" ; "), e.msg())); } }
                    pool.push((format!("<{desc}>"), newr, e));
                }
            }
        }
    }
    println!("histories {n}, steps {total_steps}");
    for (k, v) in &bad { println!("== {k}: {}", v.len()); for x in v.iter().take(6) { println!("    {}", x.chars().take(500).collect::<String>()); } }
}
