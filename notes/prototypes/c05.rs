use exmex::prelude::*;
use exmex::{DeepEx, Express, Differentiate};
pub struct Rng(u64);
impl Rng {
    fn next(&mut self) -> u64 { self.0 ^= self.0 << 13; self.0 ^= self.0 >> 7; self.0 ^= self.0 << 17; self.0 }
    fn below(&mut self, n: usize) -> usize { (self.next() % n as u64) as usize }
    fn unit(&mut self) -> f64 { (self.next() >> 11) as f64 / (1u64 << 53) as f64 }
}
#[derive(Clone, Debug)]
enum T { Lit(f64), Var(usize), Un(&'static str, Box<T>), Bin(&'static str, Box<T>, Box<T>) }
const UN: &[&str] = &["-", "+", "sqrt", "ln", "log", "log2", "log10", "exp", "sin", "cos", "tan", "asin", "acos", "atan", "sinh", "cosh", "tanh", "asinh", "acosh", "atanh"];
const BIN: &[(&str, i32)] = &[("+", 0), ("-", 1), ("*", 2), ("/", 3), ("^", 4)];
fn gen(r: &mut Rng, d: usize) -> T {
    if d == 0 || r.below(5) == 0 { if r.below(3) == 0 { T::Lit([0.5, 1.0, 2.0, 3.0, 1.5, 0.25, 4.0][r.below(7)]) } else { T::Var(r.below(3)) } }
    else if r.below(3) == 0 { T::Un(UN[r.below(UN.len())], Box::new(gen(r, d - 1))) }
    else { T::Bin(BIN[r.below(BIN.len())].0, Box::new(gen(r, d - 1)), Box::new(gen(r, d - 1))) }
}
fn prio(o: &str) -> i32 { BIN.iter().find(|b| b.0 == o).unwrap().1 }
fn render(t: &T) -> String {
    match t {
        T::Lit(x) => format!("{x:?}"), T::Var(i) => ["x", "y", "z"][*i].to_string(),
        T::Un(o, a) => format!("{o}({})", render(a)),
        T::Bin(o, a, b) => {
            let p = prio(o);
            let side = |c: &T, left: bool| { let s = render(c); match c { T::Bin(co, _, _) if prio(co) < p || (prio(co) == p && !left) => format!("({s})"), _ => s } };
            format!("{}{o}{}", side(a, true), side(b, false))
        }
    }
}
// dual numbers
#[derive(Clone, Copy, Debug)]
struct D { v: f64, d: f64 }
struct Guard { ok: bool, maxmag: f64 }
fn ev(t: &T, p: &[f64], wrt: usize, g: &mut Guard) -> D {
    let r = match t {
        T::Lit(x) => D { v: *x, d: 0.0 },
        T::Var(i) => D { v: p[*i], d: if *i == wrt { 1.0 } else { 0.0 } },
        T::Un(o, a) => { let a = ev(a, p, wrt, g); let x = a.v; let (v, dv) = match *o {
            "-" => (-x, -1.0), "+" => (x, 1.0),
            "sqrt" => { if x < 0.05 { g.ok = false; } (x.sqrt(), 0.5 / x.sqrt()) }
            "ln" | "log" => { if x < 0.05 { g.ok = false; } (x.ln(), 1.0 / x) }
            "log2" => { if x < 0.05 { g.ok = false; } (x.log2(), 1.0 / (x * 2f64.ln())) }
            "log10" => { if x < 0.05 { g.ok = false; } (x.log10(), 1.0 / (x * 10f64.ln())) }
            "exp" => (x.exp(), x.exp()), "sin" => (x.sin(), x.cos()), "cos" => (x.cos(), -x.sin()),
            "tan" => { if x.cos().abs() < 0.05 { g.ok = false; } (x.tan(), 1.0 / (x.cos() * x.cos())) }
            "asin" => { if x.abs() > 0.95 { g.ok = false; } (x.asin(), 1.0 / (1.0 - x * x).sqrt()) }
            "acos" => { if x.abs() > 0.95 { g.ok = false; } (x.acos(), -1.0 / (1.0 - x * x).sqrt()) }
            "atan" => (x.atan(), 1.0 / (1.0 + x * x)),
            "sinh" => (x.sinh(), x.cosh()), "cosh" => (x.cosh(), x.sinh()), "tanh" => (x.tanh(), 1.0 - x.tanh() * x.tanh()),
            "asinh" => (x.asinh(), 1.0 / (1.0 + x * x).sqrt()),
            "acosh" => { if x < 1.05 { g.ok = false; } (x.acosh(), 1.0 / ((x - 1.0).sqrt() * (x + 1.0).sqrt())) }
            "atanh" => { if x.abs() > 0.95 { g.ok = false; } (x.atanh(), 1.0 / (1.0 - x * x)) }
            _ => unreachable!() }; D { v, d: dv * a.d } }
        T::Bin(o, a, b) => { let a = ev(a, p, wrt, g); let b = ev(b, p, wrt, g); match *o {
            "+" => D { v: a.v + b.v, d: a.d + b.d }, "-" => D { v: a.v - b.v, d: a.d - b.d },
            "*" => D { v: a.v * b.v, d: a.d * b.v + a.v * b.d },
            "/" => { if b.v.abs() < 0.05 { g.ok = false; } D { v: a.v / b.v, d: (a.d * b.v - a.v * b.d) / (b.v * b.v) } }
            "^" => { if a.v < 0.05 { g.ok = false; } let v = a.v.powf(b.v); D { v, d: b.v * a.v.powf(b.v - 1.0) * a.d + v * a.v.ln() * b.d } }
            _ => unreachable!() } }
    };
    if !r.v.is_finite() || !r.d.is_finite() { g.ok = false; }
    g.maxmag = g.maxmag.max(r.v.abs()).max(r.d.abs());
    r
}
fn main() {
    let a: Vec<String> = std::env::args().collect();
    let mut r = Rng(a[1].parse::<u64>().unwrap().wrapping_mul(0x9E3779B97F4A7C15) | 1);
    let n: usize = a[2].parse().unwrap(); let depth: usize = a[3].parse().unwrap();
    let mut hist = [0usize; 20]; let mut judged = 0; let mut skipped = 0; let mut errs = 0; let mut worst: Vec<(f64, String)> = vec![];
    for _ in 0..n {
        let t = gen(&mut r, depth); let s = render(&t);
        let f = match FlatEx::<f64>::parse(&s) { Ok(f) => f, Err(e) => { println!("PARSE ERR {s} {e}"); continue; } };
        let nv = f.var_names().len(); if nv == 0 { continue; }
        // map var index: names sorted subset of x,y,z
        let names: Vec<usize> = f.var_names().iter().map(|n| ["x", "y", "z"].iter().position(|m| m == n).unwrap()).collect();
        for wi in 0..nv {
            let d = match if r.below(2) == 0 { f.clone().partial(wi) } else { DeepEx::<f64>::parse(&s).unwrap().partial(wi).and_then(|d| FlatEx::from_deepex(d)) } { Ok(d) => d, Err(e) => { errs += 1; if errs < 5 { println!("PARTIAL ERR {s}: {}", e.msg()); } continue; } };
            for _ in 0..3 {
                let p3 = [0.2 + 1.8 * r.unit(), 0.2 + 1.8 * r.unit(), 0.2 + 1.8 * r.unit()];
                let mut g = Guard { ok: true, maxmag: 0.0 };
                let rf = ev(&t, &p3, names[wi], &mut g);
                if !g.ok || g.maxmag > 1e6 { skipped += 1; continue; }
                // conditioning: perturb
                let p3b = [p3[0] * (1.0 + 1e-9), p3[1] * (1.0 - 1e-9), p3[2] * (1.0 + 1e-9)];
                let mut g2 = Guard { ok: true, maxmag: 0.0 };
                let rf2 = ev(&t, &p3b, names[wi], &mut g2);
                if !g2.ok || (rf2.d - rf.d).abs() > 1e-5 * rf.d.abs().max(1e-3) { skipped += 1; continue; }
                let pv: Vec<f64> = names.iter().map(|i| p3[*i]).collect();
                let got = d.eval(&pv).unwrap();
                let rel = (got - rf.d).abs() / rf.d.abs().max(1e-6 * g.maxmag).max(1e-12);
                judged += 1;
                let b = if rel == 0.0 { 0 } else { ((rel.log10() + 17.0).max(0.0) as usize).min(19) };
                hist[b] += 1;
                if rel > 1e-9 { worst.push((rel, format!("{s} d{wi} at {pv:?}: got {got} want {} maxmag {} deriv {}", rf.d, g.maxmag, d.unparse()))); }
            }
        }
    }
    println!("judged {judged} skipped {skipped} partial errs {errs}");
    for (i, h) in hist.iter().enumerate() { if *h > 0 { println!("  rel err ~1e{}: {h}", i as i32 - 17); } }
    worst.sort_by(|a, b| b.0.partial_cmp(&a.0).unwrap());
    for (rel, w) in worst.iter().take(12) { println!("{rel:.3e} {}", &w[..w.len().min(400)]); }
}
