//! C20 workload: N threads released by a barrier parse the same texts from a cold start
//! (racing the first use of the global regexes and literal matchers), then evaluate shared
//! expressions concurrently, interleaved with clone / conversion / differentiation / unparse.
//! Every thread's results are compared bit for bit with a sequential run made afterwards.
//! Runs natively, under ThreadSanitizer and under Miri (smaller sizes).
use exmex::prelude::*;
use exmex::{DeepEx, FlatExVal, Val};
use std::sync::atomic::{AtomicUsize, Ordering};
use std::sync::{Arc, Barrier, Mutex};

const TEXTS: &[&str] = &[
    "sin(1+y)*x",
    "x*0.2*5/4+x*2*4*1*1*1+2+3+7*sin(y)-z/sin(3.0/2/(1-x*4))",
    "α * ln(z*z+1) + 2* (-z^2 + sin(4*y))",
    "atan2(0.2/(y*y+1), x) + max(x, min(y, 3)) - {a b}",
    "-(x^2)/(1+exp(-y)) + tanh(z) * PI",
    // Horner scheme nested 48 levels deep: many threads are deep inside a deep expression at once
    "HORNER",
    // 24 distinct variables (beyond the inline capacity of 16), each used asymmetrically
    "q01+2*q02-3*q03+4*q04-5*q05+6*q06-7*q07+8*q08-9*q09+10*q10-11*q11+12*q12-13*q13+14*q14-15*q15+16*q16-17*q17+18*q18-19*q19+20*q20-21*q21+22*q22-23*q23+24*q24",
    // 70 operands on one level: beyond the single-word operand tracker and the inline SmallVecs
    "a1+a2*a3-a4/2+a5*a6+a7-a8*3+a9+a1*a2-a3+a4*a5/4+a6-a7*a8+a9*2+a1-a2+a3*a4-a5+a6/5+a7*a8-a9+1+a1*a1-a2*a2+a3-a4+a5*6-a6+a7/7+a8-a9*a9+a1+a2+a3-a4*a5+a6*a7-a8/8+a9",
];

/// values the float texts must have, computed natively (independent of exmex; tolerance because
/// folding may regroup commutative chains)
fn closed_form(i: usize, v: &[f64]) -> Option<f64> {
    Some(match i {
        0 => (1.0 + v[1]).sin() * v[0],
        2 => {
            // variables sorted: y, z, α
            let (y, z, alpha) = (v[0], v[1], v[2]);
            // unary minus binds tighter than ^
            alpha * (z * z + 1.0).ln() + 2.0 * ((-z).powf(2.0) + (4.0 * y).sin())
        }
        6 => {
            // variables sorted q01..q24
            (0..24).map(|i| (i as f64 + 1.0) * v[i] * if i >= 2 && i % 2 == 0 { -1.0 } else { 1.0 }).sum()
        }
        5 => {
            let x = v[0];
            let mut acc = 1.0 + x;
            for _ in 0..47 {
                acc = 1.0 + x * acc;
            }
            acc
        }
        _ => return None,
    })
}

// two custom operator tables with the same names in a different order, one name being a prefix
// of another; used alternately by all threads. `--` is the decrement, `-` is dual.
use exmex::{BinOp, MakeOperators, Operator};
macro_rules! dec_factory {
    ($name:ident, $first:expr) => {
        #[derive(Clone, Debug)]
        struct $name;
        impl MakeOperators<f64> for $name {
            fn make<'a>() -> Vec<Operator<'a, f64>> {
                let dec = Operator::make_unary("--", |a: f64| a - 1.0);
                let minus = Operator::make_bin_unary("-", BinOp { apply: |a, b| a - b, prio: 1, is_commutative: false }, |a: f64| -a);
                let plus = Operator::make_bin("+", BinOp { apply: |a, b| a + b, prio: 0, is_commutative: true });
                let times = Operator::make_bin("*", BinOp { apply: |a, b| a * b, prio: 2, is_commutative: true });
                if $first {
                    vec![dec, minus, plus, times]
                } else {
                    vec![minus, dec, plus, times]
                }
            }
        }
    };
}
dec_factory!(DecFirst, true);
dec_factory!(DecSecond, false);

/// `3*--x+1` must be 3*(x-1)+1 with either table, whatever was parsed before in this process
fn custom_tables(thread: usize, rounds: usize) -> Vec<String> {
    let mut problems = vec![];
    for k in 0..rounds {
        let x = 0.5 + thread as f64 + 0.25 * k as f64;
        let want = 3.0 * (x - 1.0) + 1.0;
        let got = if (k + thread) % 2 == 0 {
            FlatEx::<f64, DecFirst>::parse("3*--x+1").and_then(|e| e.eval(&[x]))
        } else {
            FlatEx::<f64, DecSecond>::parse("3*--x+1").and_then(|e| e.eval(&[x]))
        };
        match got {
            Ok(g) if g == want => {}
            other => problems.push(format!("thread {thread}: custom table {} gives {other:?} for 3*--x+1 at x={x}, expected {want}", if (k + thread) % 2 == 0 { "[--, -, +, *]" } else { "[-, --, +, *]" })),
        }
    }
    problems
}
const VAL_TEXTS: &[&str] = &["1.0 if x > y else 73", "(x + 2) * 3 - y / 2.0", "to_float(fact(4)) + x ^ 2", "dot([1.0, 2.0, 3.0], [x, y, 1.0].0 * [1.0, 1.0, 1.0])"];

fn point(thread: usize, k: usize, n: usize) -> Vec<f64> {
    (0..n).map(|i| 0.3 + 0.37 * thread as f64 + 0.11 * k as f64 + 0.05 * i as f64).collect()
}

#[derive(Clone, PartialEq, Debug)]
struct Parsed {
    flat_dbg: Vec<String>,
    deep_dbg: Vec<String>,
    val_dbg: Vec<String>,
}

fn parse_all(texts: &[&'static str], val_texts: &[&'static str]) -> (Vec<FlatEx<f64>>, Vec<DeepEx<'static, f64>>, Vec<FlatExVal<i32, f64>>, Parsed) {
    let flats: Vec<FlatEx<f64>> = texts.iter().map(|t| FlatEx::<f64>::parse(t).expect("parse")).collect();
    let deeps: Vec<DeepEx<'static, f64>> = texts.iter().map(|t| DeepEx::<f64>::parse(t).expect("parse")).collect();
    let vals: Vec<FlatExVal<i32, f64>> = val_texts.iter().filter_map(|t| exmex::parse_val::<i32, f64>(t).ok()).collect();
    let p = Parsed {
        flat_dbg: flats.iter().map(|f| format!("{f:?}")).collect(),
        deep_dbg: deeps.iter().map(|d| format!("{d:?}")).collect(),
        val_dbg: vals.iter().map(|v| format!("{v:?}")).collect(),
    };
    (flats, deeps, vals, p)
}

/// the evaluation phase of one thread on the shared expressions
fn evaluate(thread: usize, iters: usize, flats: &[FlatEx<f64>], deeps: &[DeepEx<'static, f64>], vals: &[FlatExVal<i32, f64>]) -> Vec<u64> {
    let mut out = vec![];
    for k in 0..iters {
        for (i, f) in flats.iter().enumerate() {
            let n = f.var_names().len();
            let p = point(thread, k, n);
            out.push(f.eval(&p).unwrap().to_bits());
            out.push(deeps[i].eval(&p).unwrap().to_bits());
            match (k + i + thread) % 5 {
                0 => out.push(f.clone().eval(&p).unwrap().to_bits()),
                1 => out.push(f.clone().to_deepex().unwrap().eval(&p).unwrap().to_bits()),
                2 => {
                    // no derivative rule for atan2/min/max (#3); deep recursion / swell for #5, #6
                    if i != 3 && i < 5 {
                        out.push(f.clone().partial(0).map(|d| d.eval(&p).unwrap()).unwrap_or(f64::NAN).to_bits())
                    }
                }
                3 => out.push(f.unparse().len() as u64 + deeps[i].unparse().len() as u64),
                _ => out.push(FlatEx::<f64>::from_deepex(deeps[i].clone()).unwrap().eval(&p).unwrap().to_bits()),
            }
        }
        for v in vals {
            let n = v.var_names().len();
            let p: Vec<Val<i32, f64>> = point(thread, k, n).into_iter().enumerate().map(|(i, x)| if (i + thread) % 2 == 0 { Val::Float(x) } else { Val::Int((x * 10.0) as i32) }).collect();
            let r = format!("{:?}", v.eval(&p));
            out.push(r.bytes().fold(1469598103934665603u64, |h, b| (h ^ b as u64).wrapping_mul(1099511628211)));
        }
    }
    out
}

/// integer operators; the division panics on a zero divisor like the primitive does
#[derive(Clone, Debug, PartialEq, Eq, PartialOrd, Ord)]
struct IntOps;
impl MakeOperators<i64> for IntOps {
    fn make<'a>() -> Vec<Operator<'a, i64>> {
        vec![
            Operator::make_bin("+", BinOp { apply: |a, b| a.wrapping_add(b), prio: 0, is_commutative: true }),
            Operator::make_bin_unary("-", BinOp { apply: |a, b| a.wrapping_sub(b), prio: 1, is_commutative: false }, |a: i64| a.wrapping_neg()),
            Operator::make_bin("*", BinOp { apply: |a, b| a.wrapping_mul(b), prio: 2, is_commutative: true }),
            Operator::make_bin(
                "/",
                BinOp {
                    apply: |a, b| {
                        if b == 0 {
                            panic!("C20W-EXPECTED integer division by zero in a user-defined operator")
                        }
                        a.wrapping_div(b)
                    },
                    prio: 3,
                    is_commutative: false,
                },
            ),
        ]
    }
}

/// `fact` of the value type for every argument it supports, against the exact factorials; run
/// by all threads at once right after the cold start and again sequentially at the end
fn factorials(who: &str) -> Vec<String> {
    let mut problems = vec![];
    let e64 = exmex::parse_val::<i64, f64>("fact(x)");
    let e32 = exmex::parse_val::<i32, f64>("fact(x)+0");
    let (Ok(e64), Ok(e32)) = (e64, e32) else { return vec![format!("{who}: fact(x) does not parse")] };
    let mut f: i64 = 1;
    for n in 1..=20i64 {
        f *= n;
        match e64.eval(&[Val::Int(n)]) {
            Ok(Val::Int(g)) if g == f => {}
            other => problems.push(format!("{who}: fact({n}) over Val<i64, f64> gives {other:?}, expected {f}")),
        }
        if n <= 12 {
            match e32.eval(&[Val::Int(n as i32)]) {
                Ok(Val::Int(g)) if g as i64 == f => {}
                other => problems.push(format!("{who}: fact({n})+0 over Val<i32, f64> gives {other:?}, expected {f}")),
            }
        }
    }
    problems.truncate(3);
    problems
}

/// Texts whose acceptance could depend on per-process state (literal spellings at the edge of the
/// grammar) through every data type: the outcome (Ok + value, or Err) is part of the digest that
/// must be the same in every process, whatever thread and data type came first.
fn probes() -> String {
    let mut out = String::new();
    for t in ["2e3*x", "x+1.5e-3", "7E2", "1.5*x", ".5+x", "2.*x", "1e", "0x10", "1_000*x", "x+١"] {
        let f = FlatEx::<f64>::parse(t).and_then(|e| e.eval(&vec![3.0; e.var_names().len()]));
        let d = DeepEx::<f64>::parse(t).and_then(|e| e.eval(&vec![3.0; e.var_names().len()]));
        let g = FlatEx::<f32>::parse(t).and_then(|e| e.eval(&vec![3.0; e.var_names().len()]));
        let v = exmex::parse_val::<i32, f64>(t).and_then(|e| e.eval(&vec![Val::Int(3); e.var_names().len()]));
        let i = FlatEx::<i64, IntOps>::parse(t).and_then(|e| e.eval(&vec![3; e.var_names().len()]));
        out.push_str(&format!("{t}: {:?} {:?} {:?} {:?} {:?}\n", f.ok(), d.ok(), g.ok(), v.ok().map(|v| format!("{v:?}")), i.ok()));
    }
    out
}

/// An evaluation that panics inside a user-defined operator is part of an evaluation history
/// like any other: afterwards the shared expression gives what it gave before, on every thread.
fn panic_history(threads: usize) -> Vec<String> {
    let mut problems = vec![];
    for terms in [4usize, 20, 40] {
        let mut text = String::from("a/b");
        for k in 0..terms {
            text.push_str(&format!("+a*x-{}", k + 1));
        }
        let e = match FlatEx::<i64, IntOps>::parse(&text) {
            Ok(e) => Arc::new(e),
            Err(err) => {
                problems.push(format!("integer expression with {terms} terms rejected: {err:?}"));
                continue;
            }
        };
        let want = |a: i64, b: i64, x: i64| a / b + (0..terms as i64).map(|k| a * x - (k + 1)).sum::<i64>();
        let good = [6i64, 3, 2];
        let before = e.eval(&good);
        if before != Ok(want(6, 3, 2)) {
            problems.push(format!("integer expression with {terms} terms evaluates to {before:?}, closed form {}", want(6, 3, 2)));
        }
        let dump = format!("{e:?}");
        // the failing evaluation, on another thread, which survives it
        let e2 = e.clone();
        let failed = std::thread::spawn(move || std::panic::catch_unwind(std::panic::AssertUnwindSafe(|| e2.eval(&[6, 0, 2]))).is_err()).join().unwrap_or(false);
        if !failed {
            problems.push("the division by zero in the user-defined operator did not panic".into());
        }
        let handles: Vec<_> = (0..threads.min(4))
            .map(|t| {
                let e = e.clone();
                std::thread::spawn(move || std::panic::catch_unwind(std::panic::AssertUnwindSafe(|| e.eval(&[6 + t as i64, 3, 2]))))
            })
            .collect();
        for (t, h) in handles.into_iter().enumerate() {
            match h.join() {
                Ok(Ok(Ok(v))) if v == want(6 + t as i64, 3, 2) => {}
                other => problems.push(format!("after an evaluation that panicked in a user-defined operator, thread {t} gets {:?} from the shared expression ({terms} terms), closed form {}", other.map(|r| r.map_err(|_| "panic")), want(6 + t as i64, 3, 2))),
            }
        }
        if dump != format!("{e:?}") {
            problems.push(format!("the Debug dump of the shared integer expression ({terms} terms) changed after a panicking evaluation"));
        }
    }
    problems.truncate(4);
    problems
}

fn main() {
    // panics that the workload provokes on purpose are not reported on stderr
    let default_hook = std::panic::take_hook();
    std::panic::set_hook(Box::new(move |info| {
        let expected = info.payload().downcast_ref::<&str>().map(|m| m.starts_with("C20W-EXPECTED")).unwrap_or(false)
            || info.payload().downcast_ref::<String>().map(|m| m.starts_with("C20W-EXPECTED")).unwrap_or(false);
        if !expected {
            default_hook(info);
        }
    }));
    let args: Vec<String> = std::env::args().collect();
    let threads: usize = args.get(1).and_then(|s| s.parse().ok()).unwrap_or(8);
    let iters: usize = args.get(2).and_then(|s| s.parse().ok()).unwrap_or(20);
    let ntexts: usize = args.get(3).and_then(|s| s.parse().ok()).unwrap_or(TEXTS.len()).min(TEXTS.len());
    // "lenient" mode for interpreters that make float intrinsics and function-pointer addresses
    // non-deterministic on purpose (Miri): only the interpreter's own verdict (UB, data race) counts
    let lenient = args.get(4).map(|s| s == "lenient").unwrap_or(false);
    // the Horner text is built here: 1+x*(1+x*( ... (1+x) ... )) nested 48 levels deep
    static HORNER: std::sync::OnceLock<String> = std::sync::OnceLock::new();
    static ALL_TEXTS: std::sync::OnceLock<Vec<&'static str>> = std::sync::OnceLock::new();
    let horner: &'static str = HORNER
        .get_or_init(|| {
            let mut h = String::new();
            for _ in 0..47 {
                h.push_str("1+x*(");
            }
            h.push_str("1+x");
            for _ in 0..47 {
                h.push(')');
            }
            h
        })
        .as_str();
    let all_texts: &'static [&'static str] = ALL_TEXTS.get_or_init(|| TEXTS.iter().map(|t| if *t == "HORNER" { horner } else { *t }).collect()).as_slice();
    let texts = &all_texts[..ntexts];
    let val_texts = if lenient { &VAL_TEXTS[..0] } else { &VAL_TEXTS[..ntexts.min(VAL_TEXTS.len())] };

    // phase A: cold start, all threads parse the same texts at once
    let barrier = Arc::new(Barrier::new(threads));
    let ticket = Arc::new(AtomicUsize::new(0));
    let order = Arc::new(Mutex::new(vec![0usize; threads]));
    let handles: Vec<_> = (0..threads)
        .map(|t| {
            let (barrier, ticket, order) = (barrier.clone(), ticket.clone(), order.clone());
            std::thread::Builder::new().stack_size(256 << 20).spawn(move || {
                barrier.wait();
                // the very first parse of a thread uses a different data type / entry point from
                // thread to thread, so that any first-use initialisation is raced by all of them
                match t % 4 {
                    1 => {
                        let _ = exmex::parse_val::<i32, f64>("(x + 2) * 3 - y / 2.0");
                    }
                    2 => {
                        let _ = DeepEx::<f64>::parse("1.5*x+2");
                    }
                    3 => {
                        let _ = FlatEx::<i64, IntOps>::parse("2*x+3");
                    }
                    _ => {}
                }
                let first = FlatEx::<f64>::parse(texts[t % texts.len()]).expect("parse");
                let my_ticket = ticket.fetch_add(1, Ordering::SeqCst);
                order.lock().unwrap()[my_ticket] = t;
                let fact_problems = if lenient { vec![] } else { factorials(&format!("thread {t} at the cold start")) };
                let all = parse_all(texts, val_texts);
                (first, all, fact_problems)
            })
            .expect("spawn")
        })
        .collect();
    let results: Vec<_> = handles.into_iter().map(|h| h.join().expect("thread panicked")).collect();

    // phase B: share thread 0's expressions and evaluate concurrently
    let (_, (flats, deeps, vals, parsed0), _) = results[0].clone();
    let shared = Arc::new((flats, deeps, vals));
    let before = format!("{:?}{:?}{:?}", shared.0, shared.1, shared.2);
    let barrier = Arc::new(Barrier::new(threads));
    let handles: Vec<_> = (0..threads)
        .map(|t| {
            let (barrier, shared) = (barrier.clone(), shared.clone());
            std::thread::Builder::new().stack_size(256 << 20).spawn(move || {
                barrier.wait();
                let custom = if lenient { vec![] } else { custom_tables(t, iters) };
                (evaluate(t, iters, &shared.0, &shared.1, &shared.2), custom)
            })
            .expect("spawn")
        })
        .collect();
    let joined: Vec<(Vec<u64>, Vec<String>)> = handles.into_iter().map(|h| h.join().expect("thread panicked")).collect();
    let mut custom_problems: Vec<String> = joined.iter().flat_map(|j| j.1.clone()).collect();
    custom_problems.truncate(5);
    let concurrent: Vec<Vec<u64>> = joined.into_iter().map(|j| j.0).collect();
    let after = format!("{:?}{:?}{:?}", shared.0, shared.1, shared.2);

    // phase C: all threads are deep inside the same deeply nested expression at the same time
    let mut storm_problems: Vec<String> = vec![];
    if !lenient && ntexts > 5 {
        let barrier = Arc::new(Barrier::new(threads));
        let storm = iters * 100;
        let handles: Vec<_> = (0..threads)
            .map(|t| {
                let (barrier, shared) = (barrier.clone(), shared.clone());
                std::thread::Builder::new()
                    .stack_size(256 << 20)
                    .spawn(move || {
                        barrier.wait();
                        let mut bad: Option<String> = None;
                        for k in 0..storm {
                            let x = 0.1 + 0.8 * ((t * storm + k) % 1000) as f64 / 1000.0;
                            let want = closed_form(5, &[x]).unwrap();
                            for (what, got) in [("deep", shared.1[5].eval(&[x])), ("flat", shared.0[5].eval(&[x]))] {
                                match got {
                                    Ok(g) if (g - want).abs() <= 1e-9 * want.abs().max(1.0) => {}
                                    other => {
                                        if bad.is_none() {
                                            bad = Some(format!("thread {t}: concurrent evaluation #{k} of the 48-level nested {what} expression gives {other:?}, closed form {want}"));
                                        }
                                    }
                                }
                            }
                        }
                        bad
                    })
                    .expect("spawn")
            })
            .collect();
        for h in handles {
            if let Some(b) = h.join().expect("thread panicked") {
                storm_problems.push(b);
            }
        }
        storm_problems.truncate(4);
    }

    // sequential reference, made afterwards on one thread
    let (sflats, sdeeps, svals, sparsed) = parse_all(texts, val_texts);
    let mut problems: Vec<String> = vec![];
    for (t, (first, (f, d, _v, p), fact_problems)) in results.iter().enumerate() {
        problems.extend(fact_problems.iter().cloned());
        if *p != sparsed || *p != parsed0 {
            problems.push(format!("thread {t}: concurrently parsed expressions differ from the sequentially parsed ones"));
        }
        if f != &sflats || d != &sdeeps {
            problems.push(format!("thread {t}: concurrently parsed expressions are not == the sequentially parsed ones"));
        }
        if format!("{first:?}") != format!("{:?}", sflats[t % texts.len()]) {
            problems.push(format!("thread {t}: the very first parse differs"));
        }
    }
    problems.extend(custom_problems);
    problems.extend(storm_problems);
    if !lenient {
        problems.extend(factorials("sequential run at the end"));
    }
    let probe_outcomes = if lenient { String::new() } else { probes() };
    if !lenient {
        problems.extend(panic_history(threads));
        if probes() != probe_outcomes {
            problems.push("the same texts parsed twice in a row give different outcomes".into());
        }
    }
    // closed forms: also a sequential run cannot be trusted if global state was poisoned
    for (i, f) in sflats.iter().enumerate() {
        let n = f.var_names().len();
        for t in 0..threads.min(4) {
            let p = point(t, 1, n);
            if let Some(want) = closed_form(i, &p) {
                for (what, got) in [("flat", f.eval(&p)), ("deep", sdeeps[i].eval(&p))] {
                    match got {
                        Ok(g) if (g - want).abs() <= 1e-9 * want.abs().max(1.0) => {}
                        other => problems.push(format!("text #{i} ({what}) evaluates to {other:?} at {p:?}, closed form {want}")),
                    }
                }
            }
        }
    }
    if before != after {
        problems.push("evaluation modified a shared expression (Debug dump changed)".into());
    }
    let mut digest = 1469598103934665603u64;
    for (t, c) in concurrent.iter().enumerate() {
        let s = evaluate(t, iters, &sflats, &sdeeps, &svals);
        if *c != s {
            let k = c.iter().zip(s.iter()).position(|(a, b)| a != b);
            problems.push(format!("thread {t}: concurrent results differ from the sequential run (first difference at result #{k:?})"));
        }
        for x in c {
            digest = (digest ^ x).wrapping_mul(1099511628211);
        }
    }
    // (iii) single-thread history: many evaluations, snapshot unchanged
    let snap = format!("{:?}", sflats);
    let mut acc = 0u64;
    for k in 0..iters * 5 {
        for f in &sflats {
            acc = acc.wrapping_add(f.eval(&point(0, k, f.var_names().len())).unwrap().to_bits());
        }
    }
    if snap != format!("{:?}", sflats) {
        problems.push("a history of evaluations changed the expression".into());
    }
    for b in probe_outcomes.bytes() {
        digest = (digest ^ b as u64).wrapping_mul(1099511628211);
    }
    let ord = order.lock().unwrap().iter().map(|t| t.to_string()).collect::<Vec<_>>().join(",");
    println!("ORDER {ord}");
    println!("DIGEST {digest:016x} {acc:016x} results_per_thread={}", concurrent[0].len());
    if problems.is_empty() || lenient {
        println!("C20W-OK threads={threads} iters={iters} lenient={lenient} unjudged_differences={}", problems.len());
    } else {
        for p in &problems {
            println!("MISMATCH {p}");
        }
        std::process::exit(3);
    }
}
