#!/usr/bin/env python3
"""Generates /verif/MANIFEST.json. Edit CHECKS / NOT_APPLICABLE below and re-run."""
import json, os, subprocess

ROOT = os.path.dirname(os.path.dirname(os.path.abspath(__file__)))

# id -> (technique, level text, level note, design ref)
CHECKS = {
    "C01": ("runtime monitor: instrumented data type (free term algebra + wrapping-i64 ring) at the public API, reference-tree oracle",
            "Exploration: the real parser/evaluator runs over a term-algebra data type, so eval returns the applied tree; hundreds of thousands (quick) to tens of millions (thorough) of generated (operator table, tree, rendering) cases are compared with an independent reference semantics modulo AC of flagged operators, plus exact value equality on the wrapping-i64 ring; evaluation from a slice and through the consuming eval_vec / eval_iter. Held = no observed execution deviates; not a proof.",
            "Trusted: the harness' reference semantics (structural recursion over the generated tree), the renderer as definition of the surface syntax, AC normal form. Priorities 0..=99.",
            "DESIGN.md 3/C01"),
    "C02": ("runtime monitor: term-algebra differential of folded / unfolded / re-folded / deep forms, exhaustive small chains + random trees + token soup",
            "Exploration with an exhaustively enumerated sub-space (all chains of <=4/5 operands over 3 operators x all priority/flag tables x all literal patterns) plus random literal-heavy trees and an arbitrary-string differential parse vs parse_wo_compile. Fold events are counted so a run without folding is inconclusive.",
            "Trusted: reference semantics and AC normal form; commutative flag read as associative-commutative (the quantifier's restriction).",
            "DESIGN.md 3/C02"),
    "C03": ("runtime monitor: conversion histories flat<->deep over the term algebra, operator-listing oracle, flat-vs-deep soup differential",
            "Exploration: every form reached by random conversion histories must show the reference tree's variables and term; operator listings are checked against the tree; arbitrary strings accepted by both parsers must agree in every form. Operator tables include negative priorities and priorities spread up to 99 000 (the statement says all operator tables); a catalogue of float look-alikes (inf, nan, 1e3, ...) is compared between the flat and the deep form over f64.",
            "Trusted: reference semantics; equal acceptance of sloppy strings is deliberately not demanded.",
            "DESIGN.md 3/C03"),
    "C04": ("runtime monitor: hostile variable-name families and every slice length, term-algebra binding oracle",
            "Exploration: names from ASCII / digit / Greek / arbitrary-braced families (0..40 distinct, beyond the inline capacity 16; long chains with up to 520 distinct names), var_names compared with Rust's sort of the distinct names, binding observed symbolically (Var(i) must sit at every occurrence of the i-th name), every slice length 0..n+3 on all evaluation entry points, derived expressions' variable lists and arity also when they are constant in value, shipped float and value tables.",
            "Trusted: Rust's str ordering as the reference order; reference tree.",
            "DESIGN.md 3/C04"),
    "C05": ("runtime monitor: forward-mode dual numbers on the reference tree as oracle, exact rational arithmetic + guarded f64 comparison",
            "Exploration: derivatives obtained through four code paths (flat, deep, converted both ways) and a second time for order 2 (two single calls, partial_iter, partial_nth), plus long single-level chains parsed directly as deep expressions, derivatives of uncompiled flat expressions and derivatives over operator tables that are subsets of the defaults (Err or the true derivative), are evaluated at random points and compared with dual-number derivatives of the reference tree: equality over exact rationals, 1e-9 relative (plus 1e-10 of the largest intermediate magnitude) over f64 at guarded, well-conditioned interior points. Every derivative rule must have been exercised or the run is inconclusive; operators without a rule over a variable must give Err.",
            "Trusted: the dual-number rules in num.rs (the mathematical derivative table written independently); guards discard ~40 % of sampled points.",
            "DESIGN.md 3/C05"),
    "C06": ("runtime monitor: all entry points and follow-up operations under catch_unwind over exhaustive short strings, token soup, a soup over the operator names found in the shipped tables at run time (i8 / i32 / i64 instantiations of the value type), vector token soup, mutated corpus, texts nested behind value-table operators, long/deep texts on an 8 MiB stack with in-flight witness files, hang monitor",
            "Exploration with an exhaustive sub-space (all strings of <=4/6 tokens over a 14-symbol alphabet): every text goes through ten parsing entry points and, when accepted, through evaluation, conversion, printing, listings, serde, operator application, substitution and differentiation. Panics are caught and attributed to their source location; aborts (stack overflow) kill the process, which ./check reports as a crash with the in-flight text; a hang monitor reports a text that keeps a worker busy for minutes.",
            "Trusted: catch_unwind; differentiation only for texts <= 80 tokens / nesting <= 20 (the property excludes deeper recursion of the deep form).",
            "DESIGN.md 3/C06"),
    "C07": ("runtime monitor: exhaustive single-point damage of rendered well-formed texts, all parser entry points must return Err",
            "Fault-style exploration: for every generated well-formed text ALL single-point damages of the listed kinds are applied (each parenthesis deleted; '(' , ')' and an illegal character inserted at every character position outside braces; every binary operator appended; an extra operand placed left and right of every primary operand token, with and without a separator) and every parser entry point (term-algebra tables, shipped float table, shipped value table; deserialisation of a flat expression from the text included) must reject. ~10^6 damaged variants in the quick tier.",
            "Trusted: the renderer produces well-formed texts (originals rejected by all parsers are skipped and counted); the illegal-character set is disjoint from every table in use; tab/newline are not treated as illegal.",
            "DESIGN.md 3/C07"),
    "C08": ("runtime monitor: call-form renderings of reference trees over the term algebra + call text vs literal ((a) op (b)) expansion on the shipped tables",
            "Exploration with an exhaustive sub-space (all tree shapes with <=3 binary operators x all call/infix subsets x 4 tables) plus random trees with calls at every position (first/second argument, under unary functions, inside parentheses, symbolic and dual operators); positions reached are measured from the rendered tokens and required to be non-zero; every other case runs after the same thread parsed a call text that is rejected half-way.",
            "Trusted: reference semantics; expand_calls (token-level rewrite literally following the property statement).",
            "DESIGN.md 3/C08"),
    "C09": ("runtime monitor: differentiation histories (index sequences x four ways of differentiating) with hook H2 counting started derivative computations, exact-rational and guarded-f64 equivalence oracles",
            "Exploration: index sequences of length 0..4 incl. out-of-range entries at every position, on FlatEx and DeepEx, through partial / partial_nth / partial_iter / relaxed variants; out-of-range must be Err with the H2 work counter unchanged; all ways agree at random points (exactly over rationals); order zero is the identity (also partial_nth(_,0)); mixed partials commute and match the nested-dual reference; in the relaxed modes repeated / n-th / iterated differentiation agree on trees with rule-less operators; invalid indices on long non-ASCII texts.",
            "Trusted: hook H2 counts every call of partial_deepex; dual-number reference. Repeated single partial calls are allowed to work before reaching a bad index.",
            "DESIGN.md 3/C09"),
    "C10": ("runtime monitor: operator-application histories over expression pools; term-algebra oracle for by-name application, exact-rational / guarded-f64 oracle for overloaded arithmetic with shortcut-hit counters",
            "Exploration: histories of operate_unary/operate_binary by name on FlatEx and DeepEx (term algebra, random tables: sorted union of variables, term mod AC equals operator applied to operands' reference trees, unknown names are errors), the 23 named helpers, and histories of + - * / neg pow and unary functions on DeepEx over exact rationals and f64 with neutral constants over-represented; values compared with the unsimplified reference wherever it is finite (the statement's proviso). The overloaded ^ and unary - are compared with application by name and with the parsed text over a table where they are no power / no involution. Every shortcut branch must have fired or the run is inconclusive.",
            "Trusted: reference trees and their evaluation (eval_tree); the proviso filter (unsimplified reference finite, no 0^(<=0)).",
            "DESIGN.md 3/C10"),
    "C11": ("runtime monitor: substitution histories over the term algebra against one-pass model substitution on the reference tree",
            "Exploration: 1..3 rounds of partial maps (constants, renamings, swaps, identity, empty, compound and self-referential replacements) on FlatEx and DeepEx; after every round variable list (sorted union) and term (mod AC) must equal the model's; over f64 also with derivatives as replacements (they list more variables than they use) and constants that fold to inf / NaN.",
            "Trusted: model_subs (8 lines) and the reference semantics.",
            "DESIGN.md 3/C11"),
    "C12": ("runtime monitor: print/parse and serde round trips over the term algebra (Debug form is a matcher literal by construction) and the shipped tables",
            "Exploration: parse->unparse byte identity; texts printed by deep, converted and derived (operator application, substitution, differentiation) expressions are re-parsed as flat and deep expressions and compared with the reference tree (mod AC); serde_json round trips. f64 prints with exponent/non-finite literals are counted and skipped (the property's proviso).",
            "Trusted: reference tree; a derivative's printed text can only bring back variables that still occur (C09 keeps the full list), so derivatives are compared binding by name.",
            "DESIGN.md 3/C12"),
    "C13": ("runtime monitor: reference lexer + recursive-descent reference parser as oracle over targeted lexical families, exhaustive literal spellings",
            "Exploration with exhaustive sub-spaces (all strings of length <=5 over [0-9.]; all sign chains of length <=4): every operator/constant name of 8 tables (small ones also reversed) (default float names, value-table names, unary/constant/binary and symbolic prefix chains, Greek, digits in names, binary names that are prefixes of unary names and constants) is extended / truncated / followed by every kind of continuation, float look-alikes (nan, inf, 1e3, ...) go through FlatEx<f64/f32>, DeepEx<f64> and eval_str; and the real parsers' variable lists and terms are compared with the documented reading computed by an independent reference lexer and parser.",
            "Trusted: the reference lexer/parser (model.rs, ~200 lines, no regexes); texts the model rejects are not judged except invalid number spellings.",
            "DESIGN.md 3/C13"),
    "C14": ("runtime monitor: reduction-trace hook (H1) checked online against a shadow consumed-set, term-algebra result oracle, tracker driven directly against Vec<bool>",
            "Exploration with an exhaustive sub-space: every application order of chains with up to 8 (quick) / 9 (thorough) operands, structured and random orders at lengths straddling 32/64/128/192/256/500/1000 operands; each reduction step of eval_binary is observed through hook H1 and checked (nearest live operands, nothing consumed twice, order imposed by priorities), the final term is compared with the model (also for chains of shuffled / repeated variables and literals through eval_vec and eval_iter), both NumberTracker implementations are driven directly against a Vec<bool> shadow; reductions interrupted by a panicking user operator, and evaluation before and after an explicit compile(), must leave no trace.",
            "Trusted: the 30-line chain-reduction model; hook H1 records (op, left, right, n) faithfully.",
            "DESIGN.md 3/C14"),
    "C15": ("runtime monitor: move/clone/placeholder-tracking value type at the public API",
            "Exploration: the flat evaluator runs over a value type that counts clones per variable identity and flags default placeholders; every operand reaching an operator is inspected. eval_vec/eval_iter are compared with eval and with the reference tree on ~10^5 (quick) random expressions with arbitrary repetition patterns; a second tracking type (8 bytes, plain data, observable Clone) repeats the move/clone check; derivatives over 65..140 variables; consuming evaluations interrupted by a panicking user operator.",
            "Trusted: Tok's Clone/Default instrumentation; nothing demanded about clone counts of repeated variables.",
            "DESIGN.md 3/C15"),
    "C16": ("runtime monitor: exhaustive operator x special-operand catalogue against a reference interpreter of the documented rules; expression-level differential against the operator functions applied along the reference tree",
            "Fault-style enumeration + exploration: every operator of both shipped instantiations of the value table x every catalogue value / ordered pair (about 2*10^5 applications) plus random operands is compared with a reference interpreter that asserts only what the documentation promises; random value-typed expressions through parse_val are compared with the reference-tree evaluation (an error reached only by a permitted regrouping of a flagged operator's chain is not judged). The narrow instantiation (i32) always runs before the wide one (i64) in this process.",
            "Trusted: valmodel.rs (documented rules only; undocumented pairs are NoClaim); the sign of a zero from min/max is unspecified in Rust and compared with ==.",
            "DESIGN.md 3/C16"),
    "C17": ("runtime monitor: operator x special-operand catalogue under catch_unwind in two build profiles (release, overflow-checks+debug-assertions), the same operands through parse-time folding",
            "Fault-style enumeration: totality (no panic) and error values in the situations the statement names, observed in a release build (wrapping would show as a non-error result) and in a build where integer overflow traps; catalogue values are also written as literal expressions so that folding inside parse_val executes every operator at parse time. The release process runs the wide instantiation (i64) first, the overflow-checking process the narrow one (i32).",
            "Trusted: valmodel.rs for where an error value is promised; catch_unwind (an abort would kill the process and is reported by ./check as a crash).",
            "DESIGN.md 3/C17"),
    "C18": ("runtime monitor: typed dual-number evaluator (documented int/float/bool typing, branch selection) as oracle for derivatives of value-typed piecewise expressions",
            "Exploration: nested `f if cond else g` expressions with mixed integer/float literals are differentiated through FlatExVal and DeepEx and evaluated at float points on both sides of the branch conditions, plus piecewise integer polynomials at integer-typed points (exact) branches that are long single-level chains, and division-free expressions with elementary functions at integer points (judged where the expression itself evaluates to the all-float value); the reference differentiates the branch selected at the point. One genuine defect class (K1, integer division in derivative constants) is carved out of the generator by predicate and kept as a fixed witness catalogue reported as KNOWN-FINDING.",
            "Trusted: the typed evaluator in c18.rs; variables bound to Float values; conditions depend on at least one variable (the property's quantifier).",
            "DESIGN.md 3/C18"),
    "C19": ("runtime monitor: name -> Rust primitive reference table applied to an exhaustive special-value catalogue and random values, directly and through parsed one-operator expressions",
            "Fault-style enumeration + exploration: all 36 operators and 6 constants of the default table for f32 and f64; every ordered pair of 37 special values per binary operator (pins argument order, NaN/inf/signed-zero behaviour), random values across magnitudes and raw bit patterns; via function pointers, FlatEx, DeepEx (infix, call, juxtaposed), eval_str literals, and every unary operator applied on top of every unary operator (parsed, and through operate_unary). Agreement = identical bits, both NaN, or <= 4 ulp in the same class.",
            "Trusted: the independent name->primitive table in c19.rs; the zero sign of min/max is unspecified in Rust and exempt.",
            "DESIGN.md 3/C19"),
    "C20": ("sanitizers + runtime monitor: thread workload in fresh processes compared with a sequential run; ThreadSanitizer (-Zbuild-std); Miri with several scheduler seeds; compile-time Send+Sync assertion crate",
            "Exploration of schedules: N fresh processes x 16 threads racing the first-use initialisation and evaluating shared expressions, results bit-identical to a sequential run and identical across processes (the digest includes probe texts parsed through five data types; the first parse of a thread uses a thread-dependent data type); an evaluation that panics in a user operator is part of the evaluation history; fact(1..=20) of the value type is evaluated by all threads right after the cold start; the same workload under ThreadSanitizer and under Miri (data races, UB). Arrival orders at the initialisation race are recorded and counted (interleavings actually seen).",
            "Trusted: TSan/Miri as race oracles on the executions produced; rustc for the Send/Sync fact. Value comparisons are not judged under Miri (it randomises float intrinsics and fn-pointer addresses).",
            "DESIGN.md 3/C20"),
}

PENDING = "monitor designed in DESIGN.md section 3 but not built/validated yet in this tree; not claimed until it is silent on the unchanged tree and catches seeded breaks"
ALL = ["C%02d" % i for i in range(1, 21)]

def main():
    hooks_commits = subprocess.run(["git", "-C", "/repo", "log", "--format=%H %s"], capture_output=True, text=True).stdout.splitlines()
    hook_ids = [l.split()[0] for l in hooks_commits if " verif hook " in " " + l]
    checks = []
    for cid in ALL:
        if cid not in CHECKS:
            continue
        tech, text, note, ref = CHECKS[cid]
        checks.append({
            "property_id": cid,
            "quick_cmd": f"./check {cid} quick",
            "thorough_cmd": f"./check {cid} thorough",
            "evidence_file": f"/verif/evidence/{cid}.json",
            "replay_cmd_template": f"./check {cid} --replay {{path}}",
            "engine": "vharness",
            "level_claimed": {"category": "exploration", "text": text, "design_ref": ref},
            "level_note": note,
            "technique": tech,
        })
    manifest = {
        "version": 1,
        "setup_cmd": "cd /verif/harness && CARGO_NET_OFFLINE=true CARGO_TARGET_DIR=/verif/target cargo build --release --offline && /verif/tools/pre_C17.sh && /verif/tools/pre_C20.sh quick",
        "hooks": {
            "guard": "cargo feature `verif` of exmex (off by default)",
            "enable": "the harness depends on exmex by path=/repo with features partial,value,serde,verif; every ./check rebuilds it from /repo's working tree",
            "baseline_off_cmd": "cd /repo && cargo test --workspace --no-fail-fast --offline",
            "source_commits": hook_ids,
            "add_only": True,
        },
        "engines": [
            {"name": "c20w", "path": "/verif/c20w", "serves_properties": ["C20"], "kind_free_text": "thread workload binary run natively, under ThreadSanitizer and under Miri; /verif/sendsync is the compile-time Send+Sync assertion"},
            {"name": "vharness", "path": "/verif/harness", "serves_properties": sorted(CHECKS),
             "kind_free_text": "Rust crate with instrumented data types, generators, reference models and one monitor per property (bin vmon); runs the real exmex code from /repo"},
        ],
        "checks": checks,
        "not_applicable": [{"property_id": c, "reason": PENDING} for c in ALL if c not in CHECKS],
        "notes": "Technique family: runtime monitoring and sanitizers. Exit codes of every check: 0 held on everything observed, 1 with VIOLATION lines, 2 inconclusive (never on the unchanged tree). Known findings: /verif/known_findings.json.",
    }
    with open(os.path.join(ROOT, "MANIFEST.json"), "w") as f:
        json.dump(manifest, f, indent=1)
        f.write("\n")

if __name__ == "__main__":
    main()
