#!/bin/bash
# builds the overflow-checking variant of the harness (profile "checked")
V="$(cd "$(dirname "$0")/.." && pwd)"
export CARGO_TARGET_DIR="$V/target"
cd "$V/harness" || exit 2
if ! cargo build --profile checked --offline >/dev/null 2>&1; then
    echo "INCONCLUSIVE property=C17 reason=checked-profile harness does not build"
    exit 2
fi
exit 0
