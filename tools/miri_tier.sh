#!/bin/bash
# Thorough-tier memory-safety net: runs the small vmiri workload of a property under Miri.
# usage: miri_tier.sh <C06|C14|C15>      exit 0 clean, 1 VIOLATION (UB reported), 2 inconclusive
id="$1"
V="$(cd "$(dirname "$0")/.." && pwd)"
mode="$(echo "$id" | tr 'C' 'c')"
log="$(mktemp)"
trap 'rm -f "$log"' EXIT
cd "$V/harness" || exit 2
export CARGO_NET_OFFLINE=true
MIRIFLAGS="-Zmiri-disable-isolation" CARGO_TARGET_DIR="$V/target/miri" timeout 5400 cargo +nightly miri run --offline --bin vmiri -- "$mode" >"$log" 2>&1
rc=$?
if grep -q "Undefined Behavior\|Data race detected" "$log"; then
    mkdir -p "$V/replays/$id"
    grep -v "^warning" "$log" | tail -n 80 >"$V/replays/$id/miri_report.txt"
    grep "error:" "$log" | head -3
    echo "VIOLATION property=$id replay=$V/replays/$id/miri_report.txt"
    exit 1
fi
if [ $rc -eq 0 ] && grep -q "VMIRI-OK" "$log"; then
    n=$(grep -c " ok$" "$log")
    echo "miri: $n sub-workloads of mode $mode ran without undefined behaviour"
    # record it in the evidence file written by the monitor
    ev="$V/evidence/$id.json"
    if [ -f "$ev" ] && command -v jq >/dev/null; then
        tmp="$(mktemp)"; jq --argjson n "$n" '.coverage.miri_sub_workloads_without_ub = $n' "$ev" >"$tmp" && mv "$tmp" "$ev"
    fi
    exit 0
fi
grep -v "^warning" "$log" | tail -n 8
echo "INCONCLUSIVE property=$id reason=miri run did not complete (status $rc)"
exit 2
