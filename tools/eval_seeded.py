#!/usr/bin/env python3
"""Validates seeded changes written by sub-agents and runs the checks against them.

usage: eval_seeded.py validate <PID> <A|B>     (scratch worktree, independent confirmation)
       eval_seeded.py check <PID> <A|B> [<check id> ...]   (applies to /repo, runs checks, restores)
Results are merged into /verif/seeded/<PID>_<X>/meta.json.
"""
import json, os, shutil, subprocess, sys, time

V = "/verif"

def sh(cmd, cwd=None, timeout=3600):
    p = subprocess.run(cmd, shell=True, cwd=cwd, capture_output=True, text=True, timeout=timeout)
    return p.returncode, p.stdout + p.stderr

def load_meta(d):
    p = os.path.join(d, "meta.json")
    return json.load(open(p)) if os.path.exists(p) else {}

def save_meta(d, m):
    json.dump(m, open(os.path.join(d, "meta.json"), "w"), indent=1, ensure_ascii=False)

def seed_dir(pid, x):
    return f"{V}/seeded/{pid}_{x}"

def import_seed(pid, x):
    # first wave: /tmp/wt_<PID>/SEEDED/{A,B}; second wave: /tmp/w2_<PID>/SEEDED/{A,B} stored as C, D; third wave /tmp/w3_<PID> stored as E, F; fourth wave /tmp/w4_<PID> stored as G, H; fifth wave /tmp/w5_<PID> stored as I
    src = f"/tmp/wt_{pid}/SEEDED/{x}"
    if x in ("C", "D"):
        src = f"/tmp/w2_{pid}/SEEDED/{'A' if x == 'C' else 'B'}"
    if x in ("E", "F"):
        src = f"/tmp/w3_{pid}/SEEDED/{'A' if x == 'E' else 'B'}"
    if x == "I":  # fifth wave: /tmp/w5_<PID>, one change each (given the property text only)
        src = f"/tmp/w5_{pid}/SEEDED/A"
    if x in ("G", "H"):
        src = f"/tmp/w4_{pid}/SEEDED/{'A' if x == 'G' else 'B'}"
    d = seed_dir(pid, x)
    os.makedirs(d, exist_ok=True)
    for f in ["patch.diff", "demo.rs", "notes.md"]:
        if os.path.exists(os.path.join(src, f)):
            shutil.copy(os.path.join(src, f), os.path.join(d, f))
    return d

def validate(pid, x):
    d = import_seed(pid, x)
    wt = f"/tmp/wt_validate_{pid}_{x}"
    sh(f"git -C /repo worktree remove --force {wt}")
    rc, out = sh(f"git -C /repo worktree add --detach {wt} HEAD")
    shutil.copy("/repo/Cargo.lock", wt + "/Cargo.lock")
    m = load_meta(d)
    m.update({"property": pid, "variant": x, "source": "independent sub-agent working in its own scratch worktree (given only the property text" + (" and one-line descriptions of the earlier changes to avoid)" if x in ("C", "D", "E", "F", "G", "H") else ")")})
    res = {}
    rc, out = sh(f"git apply {d}/patch.diff", cwd=wt)
    res["patch_applies_to_repo_head"] = rc == 0
    if rc == 0:
        rc, out = sh("cargo test --workspace --no-fail-fast --offline 2>&1 | grep -E '^test result|FAILED|^error' ", cwd=wt)
        res["existing_tests_pass_with_change"] = ("FAILED" not in out and "error" not in out and "test result: ok" in out)
        res["existing_tests_output"] = out.strip().splitlines()[:8]
        shutil.copy(f"{d}/demo.rs", f"{wt}/tests/seeded_demo.rs")
        rc, out = sh("cargo test --offline --all-features --test seeded_demo 2>&1 | grep -E '^test |^test result|^error' | head -20", cwd=wt)
        res["demo_fails_with_change"] = ("FAILED" in out or "failed" in out) and "error[" not in out
        res["demo_with_change_output"] = out.strip().splitlines()[:12]
        sh("git checkout -- src", cwd=wt)
        rc, out = sh("cargo test --offline --all-features --test seeded_demo 2>&1 | grep -E '^test result|^error' | head", cwd=wt)
        res["demo_passes_without_change"] = "test result: ok" in out and "FAILED" not in out
    m["validation"] = res
    m["validated_commands"] = ["git apply patch.diff (scratch worktree of /repo HEAD)", "cargo test --workspace --no-fail-fast --offline", "cargo test --offline --all-features --test seeded_demo (with and without the change)"]
    save_meta(d, m)
    sh(f"git -C /repo worktree remove --force {wt}")
    print(pid, x, json.dumps({k: v for k, v in res.items() if isinstance(v, bool)}))

def check(pid, x, ids):
    d = seed_dir(pid, x)
    m = load_meta(d)
    results = m.get("checks", {})
    for cid in ids:
        t0 = time.time()
        rc, out = sh(f"{V}/tools/with_patch.sh {d}/patch.diff ./check {cid} quick", cwd=V, timeout=3600)
        lines = [l for l in out.splitlines() if l.startswith("VIOLATION") or "signature:" in l or l.startswith("HELD") or l.startswith("INCONCLUSIVE")]
        results[cid] = {"exit": rc, "verdict": "VIOLATION" if rc == 1 else ("HELD" if rc == 0 else "INCONCLUSIVE"), "first_lines": [l[:300] for l in lines[:4]], "seconds": round(time.time() - t0, 1)}
        print(pid, x, cid, results[cid]["verdict"], lines[1][:160] if len(lines) > 1 else "")
    m["checks"] = results
    save_meta(d, m)

if __name__ == "__main__":
    if sys.argv[1] == "validate":
        validate(sys.argv[2], sys.argv[3])
    else:
        check(sys.argv[2], sys.argv[3], sys.argv[4:] or [sys.argv[2]])
