#!/bin/bash
# C20 pre-step: the Send+Sync assertion crate, the native and the ThreadSanitizer build of the
# thread workload (all rebuilt from /repo's current working tree).
tier="${1:-quick}"
V="$(cd "$(dirname "$0")/.." && pwd)"
export CARGO_NET_OFFLINE=true
log="$(mktemp)"
trap 'rm -f "$log"' EXIT
if ! (cd "$V/sendsync" && CARGO_TARGET_DIR="$V/target/sendsync" cargo build --offline >"$log" 2>&1); then
    if grep -qE "cannot be (sent|shared) between threads|\`(Send|Sync)\` is not implemented|the trait bound .*: (Send|Sync)" "$log"; then
        mkdir -p "$V/replays/C20"
        cp "$log" "$V/replays/C20/sendsync_build_error.txt"
        grep -E "^error" -A8 "$log" | head -30
        echo "VIOLATION property=C20 replay=$V/replays/C20/sendsync_build_error.txt"
        exit 1
    fi
    grep -E "^error" -A8 "$log" | head -30
    echo "INCONCLUSIVE property=C20 reason=the Send+Sync assertion crate does not build (not a Send/Sync error)"
    exit 2
fi
if ! (cd "$V/c20w" && CARGO_TARGET_DIR="$V/target/c20w" cargo build --release --offline >"$log" 2>&1); then
    if grep -qE "cannot be (sent|shared) between threads|\`(Send|Sync)\` is not implemented" "$log"; then
        mkdir -p "$V/replays/C20"
        cp "$log" "$V/replays/C20/workload_build_error.txt"
        echo "VIOLATION property=C20 replay=$V/replays/C20/workload_build_error.txt"
        exit 1
    fi
    grep -E "^error" -A8 "$log" | head -30
    echo "INCONCLUSIVE property=C20 reason=thread workload does not build"
    exit 2
fi
if ! (cd "$V/c20w" && RUSTFLAGS="-Zsanitizer=thread" CARGO_TARGET_DIR="$V/target/c20w_tsan" cargo +nightly build -Zbuild-std --target x86_64-unknown-linux-gnu --release --offline >"$log" 2>&1); then
    grep -E "^error" -A8 "$log" | head -30
    echo "INCONCLUSIVE property=C20 reason=ThreadSanitizer build of the thread workload failed"
    exit 2
fi
exit 0
