#!/bin/bash
# usage: with_patch.sh <patch file> <command...>
# Applies the patch to /repo's working tree, runs the command, and always restores /repo.
set -u
patch="$(realpath "$1")"; shift
cd /repo || exit 3
if [ -n "$(git status --porcelain --untracked-files=no)" ]; then echo "with_patch: /repo working tree not clean" >&2; exit 3; fi
if ! git apply "$patch"; then echo "with_patch: patch does not apply" >&2; git checkout -- . ; exit 3; fi
trap 'git -C /repo checkout -- .' EXIT
cd /verif
"$@"
rc=$?
exit $rc
