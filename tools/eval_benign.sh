#!/bin/bash
# usage: eval_benign.sh <benign dir name> [check ids...]
# Applies a benign (property-preserving) change to /repo, runs the quick checks, restores /repo.
# Every check must stay silent; anything else is a false alarm of the framework.
b="$1"; shift
ids="${@:-C01 C02 C03 C04 C05 C06 C07 C08 C09 C10 C11 C12 C13 C14 C15 C16 C17 C18 C19 C20}"
cd /verif
for id in $ids; do
    out=$(tools/with_patch.sh benign/$b/patch.diff ./check $id quick 2>&1)
    rc=$?
    echo "$b $id rc=$rc $(echo "$out" | grep -E "signature|^INCONCLUSIVE" | head -2 | tr '\n' ' ' | cut -c1-260)"
done
