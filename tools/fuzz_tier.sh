#!/bin/bash
# Thorough-tier coverage-guided exploration under AddressSanitizer (libFuzzer, 16 forks).
# usage: fuzz_tier.sh <C06|C17> [seconds]     exit 0 clean, 1 VIOLATION (crash artifact), 2 inconclusive
id="$1"
secs="${2:-180}"
V="$(cd "$(dirname "$0")/.." && pwd)"
cd "$V/harness" || exit 2
export CARGO_NET_OFFLINE=true
export CARGO_TARGET_DIR="$V/target/fuzz"
corpus="$V/target/fuzz_corpus"
art="$V/replays/$id/fuzz_artifacts/"
mkdir -p "$corpus" "$art"
# artifacts of earlier runs (possibly against a different tree) must not decide this run
mkdir -p "$art/old" && find "$art" -maxdepth 1 -type f -exec mv {} "$art/old/" \;
i=0
for s in 'sin(1+y)*x' 'max(1, min(2,3))' '1.0 if x > y else 73' 'to_int(10000000000.0)' 'dot(v, [1, 0, 0])' '(v + [1, 0, 0]).2' 'α * ln(z) + 2* (-z^2 + sin(4*y))' '--sin ( z) +  {another var} + 1 + 2' 'x = 123' '2.0 ^ 99999999999' '(0-2147483647-1) % (0-1)' 'fact(20)' '1<<31' 'atan2(0.2/y, x)' 'x if 0.5<2 else y'; do
    i=$((i+1)); printf '%s' "$s" >"$corpus/seed_$i"
done
log="$(mktemp)"
trap 'rm -f "$log"' EXIT
timeout $((secs + 900)) cargo +nightly fuzz run all_entry_points "$corpus" -- -max_total_time="$secs" -timeout=10 -max_len=300 -fork=16 -artifact_prefix="$art" >"$log" 2>&1
rc=$?
f=$(find "$art" -maxdepth 1 -type f \( -name 'crash-*' -o -name 'timeout-*' -o -name 'oom-*' \) -printf '%T@ %p\n' 2>/dev/null | sort -rn | head -1 | cut -d' ' -f2-)
if [ -n "$f" ]; then
    grep -E "panicked|ERROR: AddressSanitizer|SUMMARY" "$log" | head -5
    echo "    input: $(head -c 300 "$f" | tr '\n' ' ')"
    echo "VIOLATION property=$id replay=$f"
    exit 1
fi
if grep -q "Done\|INFO: fuzzed for\|exiting: 0" "$log"; then
    execs=$(grep -oE "#[0-9]+" "$log" | tr -d '#' | sort -n | tail -1)
    echo "fuzz: ~${execs:-?} executions under AddressSanitizer in ${secs}s, no crash artifact"
    ev="$V/evidence/$id.json"
    if [ -f "$ev" ] && command -v jq >/dev/null; then
        tmp="$(mktemp)"; jq --arg n "${execs:-0}" '.coverage.asan_libfuzzer_executions = ($n|tonumber)' "$ev" >"$tmp" && mv "$tmp" "$ev"
    fi
    exit 0
fi
tail -n 8 "$log"
echo "INCONCLUSIVE property=$id reason=fuzz run did not complete (status $rc)"
exit 2
