#![no_main]
//! Coverage-guided, AddressSanitizer-instrumented exploration of C06/C17: every parsing entry
//! point and every follow-up operation on arbitrary UTF-8 (a panic or a sanitizer report is a
//! crash artifact).
use libfuzzer_sys::fuzz_target;
use vharness::mon::c06::{follow_f64, follow_val};

fuzz_target!(|data: &[u8]| {
    if let Ok(s) = std::str::from_utf8(data) {
        let (mut depth, mut maxd) = (0i32, 0i32);
        for c in s.chars() {
            if c == '(' {
                depth += 1;
                maxd = maxd.max(depth);
            } else if c == ')' {
                depth -= 1;
            }
        }
        let heavy = s.len() <= 60 && maxd <= 12;
        follow_f64(s, heavy);
        follow_val(s, heavy);
    }
});
