//! A generated case = operator table + reference tree + one rendering; judged on a set of paths.
use crate::core::Stats;
use crate::sym::{install, table_desc, Table};
use crate::sympaths::{judge, run_path, Mismatch};
use crate::tree::{ac_norm, comm_slots, reference, render_plain, shrink_tree, Tree};
use serde_json::json;

pub struct Expect {
    pub vars: Vec<String>,
    pub norm: crate::sym::Sym,
    pub comm: [bool; 64],
}

pub fn expect(tree: &Tree, table: &Table) -> Expect {
    let vars = tree.vars();
    let comm = comm_slots(table);
    let norm = ac_norm(&reference(tree, table, &vars), &comm);
    Expect { vars, norm, comm }
}

/// runs the given paths on `text` and returns the first mismatch with the reference tree
pub fn first_mismatch(tree: &Tree, table: &Table, text: &str, paths: &[&'static str]) -> Option<(&'static str, Mismatch)> {
    let ex = expect(tree, table);
    first_mismatch_with(&ex, text, paths)
}

pub fn first_mismatch_with(ex: &Expect, text: &str, paths: &[&'static str]) -> Option<(&'static str, Mismatch)> {
    for p in paths {
        let r = run_path(p, text);
        if let Some(m) = judge(&r, &ex.vars, &ex.norm, &ex.comm) {
            return Some((p, m));
        }
    }
    None
}

fn ops_in(t: &Tree, out: &mut Vec<usize>) {
    match t {
        Tree::Const(o) => {
            if !out.contains(o) {
                out.push(*o)
            }
        }
        Tree::Un(o, a) => {
            if !out.contains(o) {
                out.push(*o)
            }
            ops_in(a, out)
        }
        Tree::Bin(o, a, b) => {
            if !out.contains(o) {
                out.push(*o)
            }
            ops_in(a, out);
            ops_in(b, out)
        }
        _ => {}
    }
}

/// description of the operators a tree uses, with priorities replaced by their rank
pub fn used_ops_desc(t: &Tree, table: &Table) -> String {
    let mut used = vec![];
    ops_in(t, &mut used);
    used.sort();
    let mut prios: Vec<i64> = used.iter().filter_map(|o| table[*o].bin.as_ref().map(|b| b.prio)).collect();
    prios.sort();
    prios.dedup();
    used.iter()
        .map(|o| {
            let s = &table[*o];
            let mut d = s.name.to_string();
            if let Some(b) = &s.bin {
                d.push_str(&format!(":p{}{}", prios.iter().position(|p| *p == b.prio).unwrap(), if b.comm { "c" } else { "" }));
            }
            if s.un.is_some() {
                d.push_str(":u");
            }
            if s.constant.is_some() {
                d.push_str(":k");
            }
            d
        })
        .collect::<Vec<_>>()
        .join(" ")
}

/// Shrinks a failing tree case (by plain re-rendering, or `rerender` if given) and records it.
pub fn record_tree_violation(
    stats: &mut Stats,
    tree: &Tree,
    table: &Table,
    text: &str,
    path: &'static str,
    m: &Mismatch,
    paths: &[&'static str],
    rerender: Option<&dyn Fn(&Tree, &Table) -> String>,
) {
    install(table);
    if stats.violations.len() >= 6 {
        // enough witnesses from this worker; shrinking is the expensive part
        stats.bump("violations_raw");
        return;
    }
    let rr = |t: &Tree| match rerender {
        Some(f) => f(t, table),
        None => render_plain(t, table),
    };
    // does the canonical rendering of the original tree fail as well? then shrink on it
    let (small, small_text, small_path, small_m) = if first_mismatch(tree, table, &rr(tree), paths).is_some() {
        let mut pred = |t: &Tree| first_mismatch(t, table, &rr(t), paths).is_some();
        let s = shrink_tree(tree, &mut pred, 400);
        let st = rr(&s);
        match first_mismatch(&s, table, &st, paths) {
            Some((p, mm)) => (s, st, p, mm),
            // the failure does not reproduce on re-evaluation (it depends on what this thread did
            // before): the original observation is the witness
            None => {
                stats.bump("violations_not_reproducible_on_re_evaluation");
                (tree.clone(), text.to_string(), path, m.clone())
            }
        }
    } else {
        (tree.clone(), text.to_string(), path, m.clone())
    };
    let sig = format!("{}|{}|{}|{}", small_path, small_m.kind(), small_text, used_ops_desc(&small, table));
    stats.violation(
        sig,
        small_text.len(),
        json!({
            "kind": "tree-case",
            "path": small_path,
            "mismatch": small_m.describe(),
            "text": small_text,
            "table": table_desc(table),
            "expected_variables": expect(&small, table).vars,
            "expected_term_mod_AC": format!("{:?}", expect(&small, table).norm),
            "original_text": text,
            "original_path": path,
            "original_mismatch": m.describe().chars().take(300).collect::<String>(),
        }),
    );
}
