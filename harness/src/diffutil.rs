//! Shared helpers of the differentiation monitors (C05, C09, C10, C18).
use crate::num::{eval_tree, Dual, Guard, Rat};
use crate::rng::Rng;
use crate::stdtables::float_table;
use crate::sym::Table;
use crate::tree::{gen_tree, GenCfg, Tree};

pub const DIFF_BIN: &[&str] = &["+", "-", "*", "/", "^"];
pub const DIFF_UN: &[&str] = &[
    "+", "-", "sqrt", "ln", "log", "log2", "log10", "exp", "sin", "cos", "tan", "asin", "acos", "atan", "sinh", "cosh", "tanh", "asinh", "acosh", "atanh",
];
pub const NONDIFF_UN: &[&str] = &["abs", "signum", "floor", "ceil", "round", "trunc", "fract", "cbrt"];
pub const NONDIFF_BIN: &[&str] = &["min", "max", "atan2"];

/// the default float table restricted to the given operator names (dual +/- keep both roles
/// only if `unary_signs`)
pub fn sub_table(names: &[&str], unary_signs: bool) -> Table {
    float_table()
        .into_iter()
        .filter(|o| names.contains(&o.name))
        .map(|mut o| {
            if !unary_signs && o.bin.is_some() {
                o.un = None;
            }
            o
        })
        .collect()
}

pub fn diff_table(rng: &mut Rng, with_nondiff: bool) -> Table {
    let mut names: Vec<&str> = DIFF_BIN.to_vec();
    // a random subset of the elementary functions keeps single trees focused
    let mut un: Vec<&str> = DIFF_UN[2..].to_vec();
    rng.shuffle(&mut un);
    names.extend(un.iter().take(rng.range(1, 7)));
    names.extend(["PI", "E", "τ"]);
    if with_nondiff {
        if rng.chance(1, 2) {
            names.push(NONDIFF_UN[rng.below(NONDIFF_UN.len())]);
        } else {
            names.push(NONDIFF_BIN[rng.below(NONDIFF_BIN.len())]);
        }
    }
    sub_table(&names, true)
}

pub const DIFF_LITS: &[&str] = &["0.5", "1", "2", "3", "1.5", "0.25", "4", "0.1", "10", "2.5"];

pub fn gen_diff_tree(rng: &mut Rng, table: &Table, max_leaves: usize) -> Tree {
    let gcfg = GenCfg { lit_num: rng.range(2, 5), const_num: 1, un_num: rng.range(1, 4), chain_num: rng.below(6), vars: vec!["x".into(), "y".into(), "z".into()] };
    let n = rng.range(1, max_leaves);
    let t = gen_tree(rng, table, n, &gcfg);
    relit(&t, rng)
}

/// replaces the generic literal pool by the numeric one
fn relit(t: &Tree, rng: &mut Rng) -> Tree {
    match t {
        Tree::Lit(_) => Tree::lit(*rng.pick(DIFF_LITS)),
        Tree::Un(o, a) => Tree::un(*o, relit(a, rng)),
        Tree::Bin(o, a, b) => Tree::bin(*o, relit(a, rng), relit(b, rng)),
        _ => t.clone(),
    }
}

/// operator names with the differentiation variable below them ("active" rules)
pub fn active_ops(t: &Tree, table: &Table, var: &str, out: &mut Vec<String>) -> bool {
    match t {
        Tree::Var(n) => n == var,
        Tree::Un(o, a) => {
            let act = active_ops(a, table, var, out);
            if act {
                out.push(format!("unary {}", table[*o].name));
            }
            act
        }
        Tree::Bin(o, a, b) => {
            let aa = active_ops(a, table, var, out);
            let ab = active_ops(b, table, var, out);
            if aa || ab {
                out.push(format!("binary {}{}", table[*o].name, if table[*o].name == "^" { if ab { " (variable exponent)" } else { " (constant exponent)" } } else { "" }));
            }
            aa || ab
        }
        _ => false,
    }
}

/// names of operators without a derivative rule that have a variable below them
pub fn nondiff_over_variable(t: &Tree, table: &Table) -> bool {
    match t {
        Tree::Un(o, a) => (NONDIFF_UN.contains(&table[*o].name) && a.has_var()) || nondiff_over_variable(a, table),
        Tree::Bin(o, a, b) => (NONDIFF_BIN.contains(&table[*o].name) && (a.has_var() || b.has_var())) || nondiff_over_variable(a, table) || nondiff_over_variable(b, table),
        _ => false,
    }
}

pub fn sample_point(rng: &mut Rng, n: usize) -> Vec<f64> {
    (0..n)
        .map(|_| match rng.below(8) {
            0 => -(0.2 + 1.8 * rng.unit()),
            1 => 0.05 + 0.9 * rng.unit(),
            _ => 0.2 + 1.8 * rng.unit(),
        })
        .collect()
}

/// first-order reference derivative w.r.t. variable `wrt` at `p`; None if the point is not a
/// well-conditioned interior point
pub fn ref_d1(t: &Tree, table: &Table, vars: &[String], p: &[f64], wrt: usize) -> Option<(f64, f64, f64)> {
    let at = |p: &[f64]| {
        let vals: Vec<Dual<f64>> = p.iter().enumerate().map(|(i, x)| Dual::var(*x, i == wrt)).collect();
        let mut g = Guard::new();
        let r = eval_tree(t, table, vars, &vals, &mut g);
        (r, g)
    };
    let (r, g) = at(p);
    if !g.ok || g.maxmag > 1e6 || !r.d.is_finite() || r.d.abs() > 1e6 {
        return None;
    }
    // conditioning: the derivative must not move much under a tiny perturbation of the point
    let q: Vec<f64> = p.iter().enumerate().map(|(i, x)| x * (1.0 + if i % 2 == 0 { 1e-9 } else { -1e-9 })).collect();
    let (r2, g2) = at(&q);
    if !g2.ok || (r2.d - r.d).abs() > 1e-5 * r.d.abs().max(1e-3) {
        return None;
    }
    Some((r.v, r.d, g.maxmag.max(r.d.abs())))
}

/// second-order reference d2/(d wrt1 d wrt2)
pub fn ref_d2(t: &Tree, table: &Table, vars: &[String], p: &[f64], w1: usize, w2: usize) -> Option<(f64, f64)> {
    let at = |p: &[f64]| {
        let vals: Vec<Dual<Dual<f64>>> = p
            .iter()
            .enumerate()
            .map(|(i, x)| Dual { v: Dual::var(*x, i == w1), d: Dual { v: if i == w2 { 1.0 } else { 0.0 }, d: 0.0 } })
            .collect();
        let mut g = Guard::new();
        let r = eval_tree(t, table, vars, &vals, &mut g);
        (r, g)
    };
    let (r, g) = at(p);
    let d2 = r.d.d;
    if !g.ok || g.maxmag > 1e4 || !d2.is_finite() || d2.abs() > 1e5 || !r.d.v.is_finite() || !r.v.d.is_finite() {
        return None;
    }
    let q: Vec<f64> = p.iter().enumerate().map(|(i, x)| x * (1.0 + if i % 2 == 0 { 1e-9 } else { -1e-9 })).collect();
    let (r2, g2) = at(&q);
    if !g2.ok || (r2.d.d - d2).abs() > 1e-5 * d2.abs().max(1e-3) {
        return None;
    }
    Some((d2, g.maxmag.max(d2.abs()).max(r.d.v.abs()).max(r.v.d.abs())))
}

/// `maxmag` is the largest magnitude (values and derivative parts) met while evaluating the
/// reference; cancellation in a derivative expression costs a few ulps of it
pub fn close(got: f64, want: f64, maxmag: f64, rel: f64) -> bool {
    (got - want).abs() <= rel * want.abs() + 0.1 * rel * maxmag.max(1e-3)
}

// ----- exact fragment

pub const RAT_LITS: &[&str] = &["1", "2", "3", "0.5", "0.25", "5", "1.5"];

pub fn gen_rat_tree(rng: &mut Rng, table: &Table, max_leaves: usize) -> Tree {
    let gcfg = GenCfg { lit_num: rng.range(2, 5), const_num: 0, un_num: rng.range(0, 2), chain_num: rng.below(6), vars: vec!["x".into(), "y".into(), "z".into()] };
    let n = rng.range(1, max_leaves);
    let t = gen_tree(rng, table, n, &gcfg);
    fix_rat(&t, table, rng)
}

/// exponents become small non-negative integer literals
fn fix_rat(t: &Tree, table: &Table, rng: &mut Rng) -> Tree {
    match t {
        Tree::Lit(_) => Tree::lit(*rng.pick(RAT_LITS)),
        Tree::Un(o, a) => Tree::un(*o, fix_rat(a, table, rng)),
        Tree::Bin(o, a, b) => {
            if table[*o].name == "^" {
                Tree::bin(*o, fix_rat(a, table, rng), Tree::lit(["0", "1", "2", "3", "4"][rng.below(5)]))
            } else {
                Tree::bin(*o, fix_rat(a, table, rng), fix_rat(b, table, rng))
            }
        }
        _ => t.clone(),
    }
}

pub fn rat_point(rng: &mut Rng, n: usize) -> Vec<Rat> {
    (0..n).map(|_| Rat::new(rng.range(1, 9) as i128 * if rng.chance(1, 4) { -1 } else { 1 }, rng.range(1, 5) as i128)).collect()
}

pub fn ref_rat_d1(t: &Tree, table: &Table, vars: &[String], p: &[Rat], wrt: usize) -> Option<(Rat, Rat)> {
    let vals: Vec<Dual<Rat>> = p.iter().enumerate().map(|(i, x)| Dual::var(*x, i == wrt)).collect();
    let mut g = Guard::new();
    // guards work on f64 shadows; exactness needs only "no poison"
    let r = eval_tree(t, table, vars, &vals, &mut g);
    if r.v.is_poison() || r.d.is_poison() || !g.ok {
        return None;
    }
    Some((r.v, r.d))
}

pub fn ref_rat_d2(t: &Tree, table: &Table, vars: &[String], p: &[Rat], w1: usize, w2: usize) -> Option<Rat> {
    let vals: Vec<Dual<Dual<Rat>>> = p
        .iter()
        .enumerate()
        .map(|(i, x)| Dual { v: Dual::var(*x, i == w1), d: Dual { v: Rat::int(if i == w2 { 1 } else { 0 }), d: Rat::int(0) } })
        .collect();
    let mut g = Guard::new();
    let r = eval_tree(t, table, vars, &vals, &mut g);
    if r.d.d.is_poison() || r.v.v.is_poison() || !g.ok {
        return None;
    }
    Some(r.d.d)
}
