//! Deterministic PRNG: splitmix64 for seeding, xorshift64* for the stream.
#[derive(Clone, Debug)]
pub struct Rng(pub u64);

pub fn splitmix(mut x: u64) -> u64 {
    x = x.wrapping_add(0x9E37_79B9_7F4A_7C15);
    let mut z = x;
    z = (z ^ (z >> 30)).wrapping_mul(0xBF58_476D_1CE4_E5B9);
    z = (z ^ (z >> 27)).wrapping_mul(0x94D0_49BB_1331_11EB);
    z ^ (z >> 31)
}

impl Rng {
    pub fn new(seed: u64, stream: u64) -> Rng {
        let s = splitmix(seed ^ splitmix(stream.wrapping_mul(0xA24B_AED4_963E_E407)));
        Rng(if s == 0 { 0x1234_5678_9ABC_DEF1 } else { s })
    }
    pub fn next(&mut self) -> u64 {
        self.0 ^= self.0 >> 12;
        self.0 ^= self.0 << 25;
        self.0 ^= self.0 >> 27;
        self.0.wrapping_mul(0x2545_F491_4F6C_DD1D)
    }
    pub fn below(&mut self, n: usize) -> usize {
        if n == 0 {
            0
        } else {
            ((self.next() >> 11) % n as u64) as usize
        }
    }
    pub fn range(&mut self, lo: usize, hi_incl: usize) -> usize {
        lo + self.below(hi_incl - lo + 1)
    }
    pub fn chance(&mut self, num: usize, den: usize) -> bool {
        self.below(den) < num
    }
    pub fn pick<'a, T>(&mut self, xs: &'a [T]) -> &'a T {
        &xs[self.below(xs.len())]
    }
    pub fn unit(&mut self) -> f64 {
        (self.next() >> 11) as f64 / (1u64 << 53) as f64
    }
    pub fn shuffle<T>(&mut self, xs: &mut [T]) {
        for i in (1..xs.len()).rev() {
            let j = self.below(i + 1);
            xs.swap(i, j);
        }
    }
}
