//! Reference lexer and parser: the documented lexical and precedence rules, written
//! independently of exmex (no regexes, no flat/deep forms, plain recursive descent).
use crate::sym::Table;
use crate::tree::{is_ident_char, Tree};

#[derive(Clone, Debug, PartialEq)]
pub enum MTok {
    Num(String),
    Var(String),
    Op(usize),
    Open,
    Close,
    Comma,
}

/// which literal syntax the parser under test is configured with
#[derive(Clone, Copy, Debug, PartialEq)]
pub enum Lits {
    /// digits with at most one leading, inner or trailing dot (exmex' NumberMatcher)
    Number,
    /// digits [. digits] (the term algebra's matcher)
    Sym,
}

fn literal_len(rest: &str, lits: Lits) -> Option<usize> {
    let b = rest.as_bytes();
    match lits {
        Lits::Number => {
            let n = b.iter().take_while(|c| c.is_ascii_digit() || **c == b'.').count();
            let dots = b[..n].iter().filter(|c| **c == b'.').count();
            let digits = n - dots;
            if n > 0 && digits >= 1 && dots <= 1 {
                Some(n)
            } else {
                None
            }
        }
        Lits::Sym => {
            let mut n = b.iter().take_while(|c| c.is_ascii_digit()).count();
            if n == 0 {
                return None;
            }
            if n + 1 < b.len() && b[n] == b'.' && b[n + 1].is_ascii_digit() {
                n += 1;
                n += b[n..].iter().take_while(|c| c.is_ascii_digit()).count();
            }
            Some(n)
        }
    }
}

fn is_identifier(s: &str) -> bool {
    let mut cs = s.chars();
    match cs.next() {
        Some(c) if is_ident_char(c) && !c.is_ascii_digit() => cs.all(is_ident_char),
        _ => false,
    }
}

/// The documented lexical rule.
pub fn lex(text: &str, table: &Table, lits: Lits) -> Result<Vec<MTok>, String> {
    let mut out = vec![];
    let mut pos = 0;
    while pos < text.len() {
        let rest = &text[pos..];
        let c = rest.chars().next().unwrap();
        if c == ' ' {
            pos += 1;
            continue;
        }
        match c {
            '(' => {
                out.push(MTok::Open);
                pos += 1;
                continue;
            }
            ')' => {
                out.push(MTok::Close);
                pos += 1;
                continue;
            }
            ',' => {
                out.push(MTok::Comma);
                pos += 1;
                continue;
            }
            '{' => {
                let Some(end) = rest.find('}') else { return Err("unterminated brace (not modelled)".into()) };
                out.push(MTok::Var(rest[1..end].to_string()));
                pos += end + 1;
                continue;
            }
            _ => {}
        }
        if let Some(n) = literal_len(rest, lits) {
            out.push(MTok::Num(rest[..n].to_string()));
            pos += n;
            continue;
        }
        // longest operator name that matches here; a name that is not a binary operator is
        // only taken if it is not continued by identifier characters
        let mut best: Option<usize> = None;
        for (i, o) in table.iter().enumerate() {
            if !rest.starts_with(o.name) {
                continue;
            }
            let after = rest[o.name.len()..].chars().next();
            let continued = is_identifier(o.name) && after.map(is_ident_char).unwrap_or(false);
            if o.bin.is_none() && continued {
                continue;
            }
            if best.map(|b| table[b].name.len() < o.name.len()).unwrap_or(true) {
                best = Some(i);
            }
        }
        if let Some(i) = best {
            out.push(MTok::Op(i));
            pos += table[i].name.len();
            continue;
        }
        if is_ident_char(c) && !c.is_ascii_digit() {
            let n: usize = rest.chars().take_while(|c| is_ident_char(*c)).map(|c| c.len_utf8()).sum();
            out.push(MTok::Var(rest[..n].to_string()));
            pos += n;
            continue;
        }
        return Err(format!("cannot tokenise {rest:?}"));
    }
    Ok(out)
}

struct P<'a> {
    toks: &'a [MTok],
    pos: usize,
    table: &'a Table,
}

impl P<'_> {
    fn peek(&self) -> Option<&MTok> {
        self.toks.get(self.pos)
    }
    /// operand := unary-operator* primary ; a dual operator in operand position is unary
    fn operand(&mut self) -> Result<Tree, String> {
        match self.peek().cloned() {
            Some(MTok::Num(s)) => {
                self.pos += 1;
                Ok(Tree::Lit(s))
            }
            Some(MTok::Var(s)) => {
                self.pos += 1;
                Ok(Tree::Var(s))
            }
            Some(MTok::Open) => {
                self.pos += 1;
                let e = self.expr(i64::MIN)?;
                match self.peek() {
                    Some(MTok::Close) => {
                        self.pos += 1;
                        Ok(e)
                    }
                    _ => Err("missing closing parenthesis".into()),
                }
            }
            Some(MTok::Op(i)) => {
                let o = &self.table[i];
                if o.constant.is_some() {
                    self.pos += 1;
                    return Ok(Tree::Const(i));
                }
                if o.un.is_some() {
                    // call notation is not part of this model
                    self.pos += 1;
                    let a = self.operand()?;
                    return Ok(Tree::un(i, a));
                }
                Err("binary operator in operand position (call notation is not modelled)".into())
            }
            _ => Err("operand expected".into()),
        }
    }
    /// precedence climbing, left-associative, higher priority binds tighter
    fn expr(&mut self, min_prio: i64) -> Result<Tree, String> {
        let mut lhs = self.operand()?;
        loop {
            let Some(MTok::Op(i)) = self.peek().cloned() else { break };
            let Some(b) = self.table[i].bin.clone() else { return Err("unary operator or constant after an operand".into()) };
            if b.prio < min_prio {
                break;
            }
            self.pos += 1;
            // operators of the same priority group left to right: the right side only takes
            // strictly higher priorities
            let rhs = self.expr(b.prio.checked_add(1).unwrap())?;
            lhs = Tree::bin(i, lhs, rhs);
        }
        Ok(lhs)
    }
}

/// reference parse of a whole text; Err = the model does not accept / does not cover it
pub fn parse(text: &str, table: &Table, lits: Lits) -> Result<Tree, String> {
    let toks = lex(text, table, lits)?;
    if toks.iter().any(|t| *t == MTok::Comma) {
        return Err("call notation is not modelled".into());
    }
    let mut p = P { toks: &toks, pos: 0, table };
    let t = p.expr(i64::MIN)?;
    if p.pos != toks.len() {
        return Err("trailing tokens".into());
    }
    Ok(t)
}
