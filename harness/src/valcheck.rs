//! Engine shared by C16 and C17: applies the shipped value operators to operands and compares
//! with the documented-rules model.
use crate::core::{catch, Stats};
use crate::rng::Rng;
use crate::valmodel::Exp;
use exmex::{MakeOperators, Val, ValOpsFactory};
use smallvec::SmallVec;

#[derive(Clone, Debug, PartialEq)]
pub enum FKind {
    Panic,
    /// the documentation promises an error value here
    ErrorExpected,
    /// the documentation promises this (non-error) value
    ValueMismatch,
}

#[derive(Clone, Debug)]
pub struct Finding {
    pub kind: FKind,
    pub types: &'static str,
    pub op: String,
    pub operands: String,
    pub expected: String,
    pub got: String,
}

impl Finding {
    pub fn sig(&self) -> String {
        format!("{:?}|{}|{}|{}", self.kind, self.types, self.op, self.operands)
    }
}

macro_rules! direct {
    ($fname:ident, $m:ident, $I:ty, $F:ty, $tn:expr) => {
        /// every unary operator x every catalogue value, every binary operator x every ordered
        /// pair, plus `n_random` random operand pairs per operator
        pub fn $fname(rng: &mut Rng, n_random: usize, st: &mut Stats, out: &mut Vec<Finding>) {
            use crate::valmodel::$m::*;
            let ops = ValOpsFactory::<$I, $F>::make();
            let cat = catalogue();
            let rand_val = |rng: &mut Rng| -> V {
                match rng.below(12) {
                    0..=2 => Val::Int(rng.next() as $I),
                    3 => Val::Int((rng.below(41) as i64 - 20) as $I),
                    4 => Val::Int(<$I>::MAX - rng.below(3) as $I),
                    5 => Val::Int(<$I>::MIN + rng.below(3) as $I),
                    6 => Val::Float(<$F>::from_bits(rng.next() as _)),
                    7 | 8 => Val::Float((rng.unit() * 200.0 - 100.0) as $F),
                    9 => Val::Float(((rng.below(200) as f64 - 100.0) * 1e9) as $F),
                    10 => Val::Bool(rng.chance(1, 2)),
                    _ => {
                        let n = rng.below(6);
                        Val::Array((0..n).map(|_| (rng.unit() * 10.0 - 5.0) as $F).collect::<SmallVec<[$F; 4]>>())
                    }
                }
            };
            let mut judge = |op: &str, exp: Exp<$F>, got: Result<V, String>, operands: String, st: &mut Stats| {
                st.bump("applications");
                match &got {
                    Err(m) => out.push(Finding { kind: FKind::Panic, types: $tn, op: op.to_string(), operands, expected: format!("{exp:?}"), got: format!("PANIC {m}") }),
                    Ok(v) => {
                        if exp == Exp::NoClaim {
                            st.bump("applications_without_documented_claim");
                            return;
                        }
                        st.bump("applications_judged");
                        if matches!(exp, Exp::IntErr | Exp::Err) {
                            st.bump("applications_where_an_error_value_is_promised");
                        }
                        if !satisfies(&exp, v, op) {
                            let kind = if matches!(exp, Exp::IntErr | Exp::Err) { FKind::ErrorExpected } else { FKind::ValueMismatch };
                            out.push(Finding { kind, types: $tn, op: op.to_string(), operands, expected: format!("{exp:?}"), got: format!("{v:?}") });
                        }
                    }
                }
            };
            for op in &ops {
                if let Ok(u) = op.unary() {
                    st.class(($tn, "unary", op.repr()));
                    let rand: Vec<V> = (0..n_random).map(|_| rand_val(rng)).collect();
                    for a in cat.iter().chain(rand.iter()) {
                        let exp = model_un(op.repr(), a);
                        let a2 = a.clone();
                        let got = catch(move || u(a2));
                        judge(op.repr(), exp, got, format!("{a:?}"), st);
                    }
                }
                if let Ok(b) = op.bin() {
                    st.class(($tn, "binary", op.repr()));
                    let mut pairs: Vec<(V, V)> = vec![];
                    for x in &cat {
                        for y in &cat {
                            pairs.push((x.clone(), y.clone()));
                        }
                    }
                    for _ in 0..n_random {
                        let x = rand_val(rng);
                        let y = if rng.chance(1, 3) { rng.pick(&cat).clone() } else { rand_val(rng) };
                        pairs.push((x, y));
                    }
                    for (x, y) in pairs {
                        let exp = model_bin(op.repr(), &x, &y);
                        let (x2, y2) = (x.clone(), y.clone());
                        let got = catch(move || (b.apply)(x2, y2));
                        judge(op.repr(), exp, got, format!("({x:?}, {y:?})"), st);
                    }
                }
            }
            // a if c else b
            let opi = ops.iter().find(|o| o.repr() == "if").and_then(|o| o.bin().ok());
            let ope = ops.iter().find(|o| o.repr() == "else").and_then(|o| o.bin().ok());
            if let (Some(opi), Some(ope)) = (opi, ope) {
                for a in cat.iter().filter(|v| !matches!(v, Val::None)) {
                    for b in &cat {
                        for c in [true, false] {
                            let (a2, b2) = (a.clone(), b.clone());
                            let got = catch(move || (ope.apply)((opi.apply)(a2, Val::Bool(c)), b2));
                            st.bump("applications");
                            st.bump("if_else_judged");
                            let want = model_if_else(a, c, b);
                            match got {
                                Err(m) => out.push(Finding { kind: FKind::Panic, types: $tn, op: "if-else".into(), operands: format!("({a:?} if {c} else {b:?})"), expected: want, got: format!("PANIC {m}") }),
                                Ok(v) => {
                                    if format!("{v:?}") != want {
                                        out.push(Finding { kind: FKind::ValueMismatch, types: $tn, op: "if-else".into(), operands: format!("({a:?} if {c} else {b:?})"), expected: want, got: format!("{v:?}") });
                                    }
                                }
                            }
                        }
                    }
                }
            }
        }
    };
}

direct!(direct_i32_f64, m32, i32, f64, "Val<i32,f64>");
direct!(direct_i64_f32, m64, i64, f32, "Val<i64,f32>");

/// literal expression denoting a catalogue value (None if it cannot be written)
pub fn literal_of(v: &Val<i32, f64>) -> Option<String> {
    Some(match v {
        Val::Int(i) if *i == i32::MIN => "(0-2147483647-1)".to_string(),
        Val::Int(i) if *i < 0 => format!("(0-{})", -(*i as i64)),
        Val::Int(i) => format!("{i}"),
        Val::Float(f) if f.is_nan() => "(0.0/0.0)".to_string(),
        Val::Float(f) if *f == f64::INFINITY => "(1.0/0.0)".to_string(),
        Val::Float(f) if *f == f64::NEG_INFINITY => "(0.0-1.0/0.0)".to_string(),
        Val::Float(f) if *f == 0.0 && f.is_sign_negative() => "(0.0*(0.0-1.0))".to_string(),
        Val::Float(f) => {
            let s = format!("{:?}", f.abs());
            if s.contains('e') || s.contains("inf") {
                // large magnitudes: decimal expansion; tiny ones cannot be written without exponent
                let s = format!("{:.1}", f.abs());
                if s.len() > 60 || s.parse::<f64>().ok() != Some(f.abs()) {
                    return None;
                }
                if *f < 0.0 { format!("(0.0-{s})") } else { s }
            } else if *f < 0.0 {
                format!("(0.0-{s})")
            } else {
                s
            }
        }
        Val::Bool(b) => format!("{b}"),
        Val::None => "(1 if false)".to_string(),
        Val::Error(_) => "(1/0)".to_string(),
        Val::Array(a) => {
            if a.is_empty() || a.iter().any(|x| !x.is_finite() || *x < 0.0) {
                return None;
            }
            format!("[{}]", a.iter().map(|x| format!("{x:?}")).collect::<Vec<_>>().join(", "))
        }
    })
}
