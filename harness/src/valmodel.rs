//! Reference interpreter for the *documented* rules of the value type (C16/C17). It asserts only
//! what the documentation / the property statements promise; everything else is `NoClaim`
//! (executed for totality, not judged for its value).
use exmex::{ExError, Val};
use smallvec::smallvec;

#[derive(Debug, Clone, PartialEq)]
pub enum Exp<F> {
    Int(i128),
    /// an integer operation that overflows / divides by zero / shifts or raises out of range
    IntErr,
    Float(F),
    Bool(bool),
    /// error operand propagated, invalid cast, or wrong operand kind
    Err,
    /// the result must be identical to this value (structural)
    Same(String),
    NoClaim,
}

pub const ARITH: &[&str] = &["+", "-", "*", "/", "min", "max"];
pub const BITW: &[&str] = &["%", "|", "&", "XOR", "<<", ">>"];
pub const CMP: &[&str] = &["==", "<", "<=", ">", ">="];
pub const ERRPROP_BIN: &[&str] = &["+", "-", "*", "/", "min", "max", "%", "|", "&", "XOR", "<<", ">>", "^", "dot", "cross", ".", "atan2"];
pub const FLOAT_FUNS: &[&str] = &[
    "sin", "cos", "tan", "asin", "acos", "atan", "sinh", "cosh", "tanh", "asinh", "acosh", "atanh", "floor", "ceil", "trunc", "fract", "exp", "sqrt", "cbrt", "round", "ln",
    "log10", "log2", "log",
];

macro_rules! val_model {
    ($modname:ident, $I:ty, $F:ty, $bits:expr) => {
        pub mod $modname {
            use super::*;
            pub type V = Val<$I, $F>;
            pub const BITS: i128 = $bits;

            fn in_range(x: i128) -> Exp<$F> {
                if x >= <$I>::MIN as i128 && x <= <$I>::MAX as i128 {
                    Exp::Int(x)
                } else {
                    Exp::IntErr
                }
            }

            pub fn catalogue() -> Vec<V> {
                let mut v: Vec<V> = vec![];
                let mx = <$I>::MAX;
                let mn = <$I>::MIN;
                for i in [0 as $I, 1, -1, 2, 3, -3, 7, (BITS - 1) as $I, BITS as $I, (BITS + 1) as $I, 100, 46341, mx, mn, mn + 1, mx - 1, mx / 2 + 1, -2] {
                    v.push(Val::Int(i));
                }
                for f in [0.0 as $F, -0.0, 1.0, -1.0, 0.5, 2.0, 3.0, -2.5, 1e10, -1e10, <$F>::MAX, <$F>::MIN_POSITIVE, <$F>::INFINITY, <$F>::NEG_INFINITY, <$F>::NAN, mx as $F, (mx as $F) * 2.0, mn as $F, (mn as $F) * 2.0, 1e30, 0.99, 31.0, 64.0] {
                    v.push(Val::Float(f));
                }
                v.push(Val::Bool(true));
                v.push(Val::Bool(false));
                v.push(Val::None);
                v.push(Val::Error(ExError::new("e")));
                v.push(Val::Array(smallvec![]));
                v.push(Val::Array(smallvec![1.0]));
                v.push(Val::Array(smallvec![1.0, 2.0]));
                v.push(Val::Array(smallvec![1.0, 2.0, 3.0]));
                v.push(Val::Array(smallvec![0.5, <$F>::NAN, 3.0, 4.0]));
                v.push(Val::Array(smallvec![1.0, 2.0, 3.0, 4.0, 5.0]));
                v
            }

            fn feq(a: $F, b: $F) -> bool {
                a.to_bits() == b.to_bits() || (a.is_nan() && b.is_nan())
            }

            /// does the observed value satisfy the expectation?
            pub fn satisfies(exp: &Exp<$F>, got: &V, op: &str) -> bool {
                match (exp, got) {
                    (Exp::NoClaim, _) => true,
                    (Exp::Int(i), Val::Int(g)) => *i == *g as i128,
                    (Exp::IntErr, Val::Error(_)) | (Exp::Err, Val::Error(_)) => true,
                    // Rust leaves the sign of a zero returned by min/max unspecified
                    (Exp::Float(f), Val::Float(g)) if op == "min" || op == "max" => feq(*f, *g) || (*f == 0.0 && *g == 0.0),
                    (Exp::Float(f), Val::Float(g)) => feq(*f, *g),
                    (Exp::Bool(b), Val::Bool(g)) => b == g,
                    (Exp::Same(s), g) => *s == format!("{g:?}"),
                    _ => false,
                }
            }

            pub fn model_bin(op: &str, a: &V, b: &V) -> Exp<$F> {
                use Val::*;
                if ERRPROP_BIN.contains(&op) && (matches!(a, Error(_)) || matches!(b, Error(_))) {
                    return Exp::Err;
                }
                match (a, b) {
                    (Int(x), Int(y)) => {
                        let (xi, yi) = (*x, *y);
                        let (x, y) = (*x as i128, *y as i128);
                        match op {
                            "+" => in_range(x + y),
                            "-" => in_range(x - y),
                            "*" => in_range(x * y),
                            "/" => {
                                if y == 0 {
                                    Exp::IntErr
                                } else {
                                    in_range(x / y)
                                }
                            }
                            "%" => {
                                if y == 0 || (x == <$I>::MIN as i128 && y == -1) {
                                    Exp::IntErr
                                } else {
                                    in_range(x % y)
                                }
                            }
                            "min" => Exp::Int(x.min(y)),
                            "max" => Exp::Int(x.max(y)),
                            "|" => Exp::Int((xi | yi) as i128),
                            "&" => Exp::Int((xi & yi) as i128),
                            "XOR" => Exp::Int((xi ^ yi) as i128),
                            "<<" => {
                                if (0..BITS).contains(&y) {
                                    Exp::Int((xi << y) as i128)
                                } else {
                                    Exp::IntErr
                                }
                            }
                            ">>" => {
                                if (0..BITS).contains(&y) {
                                    Exp::Int((xi >> y) as i128)
                                } else {
                                    Exp::IntErr
                                }
                            }
                            "^" => {
                                if y < 0 {
                                    Exp::IntErr
                                } else {
                                    // exact power with early exit
                                    let mut r: i128 = 1;
                                    let mut overflow = false;
                                    if x.abs() > 1 {
                                        for _ in 0..y.min(200) {
                                            r *= x;
                                            if r.abs() > (1i128 << 100) {
                                                overflow = true;
                                                break;
                                            }
                                        }
                                        if y > 200 {
                                            overflow = true;
                                        }
                                    } else if x == 0 {
                                        r = if y == 0 { 1 } else { 0 };
                                    } else if x == -1 {
                                        r = if y % 2 == 0 { 1 } else { -1 };
                                    }
                                    if overflow {
                                        Exp::IntErr
                                    } else {
                                        in_range(r)
                                    }
                                }
                            }
                            "==" => Exp::Bool(x == y),
                            "<" => Exp::Bool(x < y),
                            "<=" => Exp::Bool(x <= y),
                            ">" => Exp::Bool(x > y),
                            ">=" => Exp::Bool(x >= y),
                            "!=" => Exp::Bool(x != y),
                            "atan2" => Exp::Float((xi as $F).atan2(yi as $F)),
                            _ => Exp::NoClaim,
                        }
                    }
                    (Int(_), Float(_)) | (Float(_), Int(_)) | (Float(_), Float(_)) => {
                        let x: $F = match a {
                            Int(i) => *i as $F,
                            Float(f) => *f,
                            _ => unreachable!(),
                        };
                        let y: $F = match b {
                            Int(i) => *i as $F,
                            Float(f) => *f,
                            _ => unreachable!(),
                        };
                        let both_float = matches!((a, b), (Float(_), Float(_)));
                        match op {
                            "+" => Exp::Float(x + y),
                            "-" => Exp::Float(x - y),
                            "*" => Exp::Float(x * y),
                            // division by the integer zero is documented nowhere for a float numerator
                            "/" => {
                                if matches!(b, Int(0)) {
                                    Exp::NoClaim
                                } else {
                                    Exp::Float(x / y)
                                }
                            }
                            "min" => Exp::Float(x.min(y)),
                            "max" => Exp::Float(x.max(y)),
                            "==" => Exp::Bool(x == y),
                            "<" => Exp::Bool(x < y),
                            "<=" => Exp::Bool(x <= y),
                            ">" => Exp::Bool(x > y),
                            ">=" => Exp::Bool(x >= y),
                            "!=" => Exp::Bool(x != y),
                            "^" if both_float => Exp::Float(x.powf(y)),
                            "atan2" => Exp::Float(x.atan2(y)),
                            o if BITW.contains(&o) => Exp::Err,
                            _ => Exp::NoClaim,
                        }
                    }
                    (Bool(x), Bool(y)) => match op {
                        "==" => Exp::Bool(x == y),
                        "!=" => Exp::Bool(x != y),
                        "&&" => Exp::Bool(*x && *y),
                        "||" => Exp::Bool(*x || *y),
                        o if ARITH.contains(&o) || BITW.contains(&o) || o == "^" => Exp::Err,
                        _ => Exp::NoClaim,
                    },
                    _ => {
                        // mismatched kinds, none, error, arrays
                        let arr = matches!(a, Array(_)) || matches!(b, Array(_));
                        if CMP.contains(&op) {
                            if matches!(a, Array(_)) && matches!(b, Array(_)) {
                                Exp::NoClaim
                            } else {
                                Exp::Bool(false)
                            }
                        } else if (ARITH.contains(&op) || BITW.contains(&op) || op == "^") && !arr {
                            Exp::Err
                        } else if BITW.contains(&op) || op == "^" {
                            // bitwise operators and power are integer/float only
                            Exp::Err
                        } else {
                            Exp::NoClaim
                        }
                    }
                }
            }

            fn float_fun(name: &str, x: $F) -> $F {
                match name {
                    "sin" => x.sin(),
                    "cos" => x.cos(),
                    "tan" => x.tan(),
                    "asin" => x.asin(),
                    "acos" => x.acos(),
                    "atan" => x.atan(),
                    "sinh" => x.sinh(),
                    "cosh" => x.cosh(),
                    "tanh" => x.tanh(),
                    "asinh" => x.asinh(),
                    "acosh" => x.acosh(),
                    "atanh" => x.atanh(),
                    "floor" => x.floor(),
                    "ceil" => x.ceil(),
                    "trunc" => x.trunc(),
                    "fract" => x.fract(),
                    "exp" => x.exp(),
                    "sqrt" => x.sqrt(),
                    "cbrt" => x.cbrt(),
                    "round" => x.round(),
                    "ln" | "log" => x.ln(),
                    "log10" => x.log10(),
                    "log2" => x.log2(),
                    _ => unreachable!(),
                }
            }

            pub fn model_un(op: &str, a: &V) -> Exp<$F> {
                use Val::*;
                if matches!(a, Error(_)) {
                    return Exp::Err;
                }
                match op {
                    "+" => Exp::Same(format!("{a:?}")),
                    "-" => match a {
                        Int(x) => {
                            if *x == <$I>::MIN {
                                Exp::IntErr
                            } else {
                                Exp::Int(-(*x as i128))
                            }
                        }
                        Float(x) => Exp::Float(-*x),
                        Array(_) => Exp::NoClaim,
                        _ => Exp::Err,
                    },
                    "abs" => match a {
                        Int(x) => {
                            if *x == <$I>::MIN {
                                Exp::IntErr
                            } else {
                                Exp::Int((*x as i128).abs())
                            }
                        }
                        Float(x) => Exp::Float(x.abs()),
                        _ => Exp::Err,
                    },
                    "signum" => match a {
                        Int(x) => Exp::Int((*x as i128).signum()),
                        Float(x) => Exp::Float(x.signum()),
                        _ => Exp::Err,
                    },
                    "to_int" => match a {
                        Int(x) => Exp::Int(*x as i128),
                        Float(x) => {
                            // NaN, infinities and floats outside the integer range are invalid casts
                            let t = x.trunc();
                            if x.is_finite() && (t as f64) >= (<$I>::MIN as f64) && (t as f64) < -(<$I>::MIN as f64) {
                                Exp::Int(t as i128)
                            } else {
                                Exp::Err
                            }
                        }
                        Bool(b) => Exp::Int(*b as i128),
                        _ => Exp::Err,
                    },
                    "to_float" => match a {
                        Int(x) => Exp::Float(*x as $F),
                        Float(x) => Exp::Float(*x),
                        Bool(b) => Exp::Float(if *b { 1.0 } else { 0.0 }),
                        _ => Exp::Err,
                    },
                    "fact" => match a {
                        Int(x) => {
                            if *x < 0 {
                                Exp::IntErr
                            } else {
                                let mut r: i128 = 1;
                                let mut ok = true;
                                for k in 1..=(*x as i128).min(40) {
                                    r *= k;
                                    if r > <$I>::MAX as i128 {
                                        ok = false;
                                        break;
                                    }
                                }
                                if !ok || *x as i128 > 40 {
                                    Exp::IntErr
                                } else {
                                    Exp::Int(r)
                                }
                            }
                        }
                        _ => Exp::Err,
                    },
                    "swap_bytes" => match a {
                        Int(x) => Exp::Int(x.swap_bytes() as i128),
                        _ => Exp::Err,
                    },
                    "to_le" => match a {
                        Int(x) => Exp::Int(x.to_le() as i128),
                        _ => Exp::Err,
                    },
                    "to_be" => match a {
                        Int(x) => Exp::Int(x.to_be() as i128),
                        _ => Exp::Err,
                    },
                    "length" => match a {
                        Array(_) => Exp::NoClaim,
                        _ => Exp::Err,
                    },
                    f if FLOAT_FUNS.contains(&f) => match a {
                        Float(x) => Exp::Float(float_fun(f, *x)),
                        // whether an integer is promoted by an elementary function is not documented
                        Int(_) => Exp::NoClaim,
                        _ => Exp::Err,
                    },
                    _ => Exp::NoClaim,
                }
            }

            /// `a if c else b` for a boolean condition
            pub fn model_if_else(a: &V, c: bool, b: &V) -> String {
                format!("{:?}", if c { a } else { b })
            }
        }
    };
}

val_model!(m32, i32, f64, 32);
val_model!(m64, i64, f32, 64);
