//! Small workloads meant to run under Miri (`cargo +nightly miri run --bin vmiri -- <mode>`):
//! the memory-safety net under the behavioural monitors. Sizes straddle the inline capacities
//! of the SmallVecs (32 nodes, 16 variables / operators) and the 64-operand tracker boundary.
use exmex::prelude::*;
use exmex::DeepEx;
use vharness::mon::c14::model;
use vharness::rng::Rng;
use vharness::sym::{install, intern, OpSpec, Sym, Table, DX, FX};
use vharness::tok::{reset_counters, Tok, FT};

fn c14(lens: &[usize]) {
    let mut rng = Rng::new(14, 1);
    for &n in lens {
        for kind in 0..2 {
            let prio: Vec<i64> = match kind {
                0 => (0..n as i64 - 1).rev().collect(),
                _ => (0..n - 1).map(|_| rng.below(7) as i64).collect(),
            };
            let table: Table = (0..n - 1).map(|k| OpSpec::bin(intern(&format!("o{k}q")), (k % 64) as u8, prio[k], false)).collect();
            install(&table);
            let mut text = String::new();
            for i in 0..n {
                text.push_str(&format!("{{v{i:04}}}"));
                if i + 1 < n {
                    text.push_str(&format!(" o{i}q "));
                }
            }
            let vals: Vec<Sym> = (0..n).map(Sym::Var).collect();
            let (want, _) = model(n, &prio);
            let f = FX::parse(&text).unwrap();
            assert_eq!(f.eval(&vals).unwrap(), want);
            let d = DX::parse(&text).unwrap();
            assert_eq!(d.eval(&vals).unwrap(), want);
            assert_eq!(f.clone().to_deepex().unwrap().eval(&vals).unwrap(), want);
            assert_eq!(FX::from_deepex(d).unwrap().eval(&vals).unwrap(), want);
            println!("c14 n={n} kind={kind} ok");
        }
    }
}

fn c15() {
    let table: Table = vec![OpSpec::dual("+", 0, 0, true, 0), OpSpec::bin("*", 1, 2, true), OpSpec::bin("-", 2, 1, false), OpSpec::un("sin", 3)];
    install(&table);
    let texts = ["a*b+a*c-sin(b)*d", "x", "x+x+x+x", "a+b*c-d*sin(e+f)*g+h-i*j+k+l+m+n+o+p+q+r+s", "1+2*x-3*(y+4)*x", "v0*v1*v2*v3*v4*v5*v6*v7*v8*v9*v10*v11*v12*v13*v14*v15*v16*v17*v18+v0"];
    for t in texts {
        for compiled in [true, false] {
            let e = if compiled { FT::parse(t).unwrap() } else { FT::parse_wo_compile(t).unwrap() };
            let n = e.var_names().len();
            let vals = |n: usize| (0..n).map(|i| Tok { term: Sym::Var(i), origin: Some(i) }).collect::<Vec<_>>();
            reset_counters(n);
            let b = e.eval(&vals(n)).unwrap();
            let v = e.eval_vec(vals(n)).unwrap();
            let i = e.eval_iter(vals(n).into_iter()).unwrap();
            assert_eq!(b.term, v.term);
            assert_eq!(b.term, i.term);
            assert!(e.eval_vec(vals(n + 1)).is_err());
            println!("c15 {t:?} compiled={compiled} ok");
        }
    }
}

fn c06(n: usize) {
    let soup = ["+", "-", "*", "/", "^", "sin", "atan2", "max", "(", ")", ",", "x", "y", "{z}", "{", "}", "1", "2.5", ".5", " ", "PI", "é", "👍", "-", "e"];
    let mut rng = Rng::new(6, 1);
    let fixed = ["sin(1+y)*x", "max(1, min(2,3))", "x*0.2*5/4+x*2*4*1*1*1+2+3+7*sin(y)-z/sin(3.0/2/(1-x*4))", "((((((x))))))", "a+b+c+d+e+f+g+h+i+j+k+l+m+n+o+p+q+r+s+t+u+v", "--+-x^-2"];
    let mut texts: Vec<String> = fixed.iter().map(|s| s.to_string()).collect();
    for _ in 0..n {
        let len = rng.range(1, 10);
        texts.push((0..len).map(|_| *rng.pick(&soup)).collect());
    }
    for t in &texts {
        if let Ok(f) = FlatEx::<f64>::parse(t) {
            let nv = f.var_names().len();
            let v = vec![0.7; nv];
            let _ = f.eval(&v);
            let _ = f.eval_vec(v.clone());
            let _ = f.unparse();
            let _ = f.operator_reprs();
            if let Ok(d) = f.clone().to_deepex() {
                let _ = d.eval(&v);
                let _ = FlatEx::<f64>::from_deepex(d.clone()).map(|g| g.eval(&v));
                if nv > 0 && t.len() < 30 {
                    let _ = d.partial(0).map(|p| p.eval(&v));
                }
            }
        }
        let _ = FlatEx::<f64>::parse_wo_compile(t).map(|f| f.eval(&vec![0.7; f.var_names().len()]));
        let _ = DeepEx::<f64>::parse(t).map(|d| d.eval(&vec![0.7; d.var_names().len()]));
        let _ = exmex::eval_str::<f32>(t);
    }
    println!("c06 {} texts ok", texts.len());
}

fn main() {
    let args: Vec<String> = std::env::args().collect();
    let mode = args.get(1).map(|s| s.as_str()).unwrap_or("all");
    let big = args.get(2).map(|s| s == "big").unwrap_or(false);
    if mode == "c14" || mode == "all" {
        if big {
            c14(&[2, 17, 31, 32, 33, 34, 63, 64, 65, 66, 127, 128, 129, 130])
        } else {
            c14(&[3, 33, 65])
        }
    }
    if mode == "c15" || mode == "all" {
        c15();
    }
    if mode == "c06" || mode == "all" {
        c06(if big { 200 } else { 25 });
    }
    println!("VMIRI-OK");
}
