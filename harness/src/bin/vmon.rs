use std::time::Instant;
use vharness::core::{install_panic_hook, Ctx, Tier};

fn main() {
    let args: Vec<String> = std::env::args().collect();
    if args.len() < 3 {
        eprintln!("usage: vmon <property id> <quick|thorough>");
        std::process::exit(2);
    }
    let id: &'static str = Box::leak(args[1].clone().into_boxed_str());
    if args[2] == "--replay" {
        let verif_dir: std::path::PathBuf = std::env::var("VERIF_DIR").unwrap_or_else(|_| "/verif".to_string()).into();
        install_panic_hook();
        let Some(path) = args.get(3) else {
            eprintln!("usage: vmon <property id> --replay <file>");
            std::process::exit(2);
        };
        std::process::exit(vharness::core::replay(id, path, &verif_dir));
    }
    let tier = match args[2].as_str() {
        "quick" => Tier::Quick,
        "thorough" => Tier::Thorough,
        other => {
            eprintln!("unknown tier {other}");
            std::process::exit(2);
        }
    };
    let seed: u64 = std::env::var("VERIF_SEED").ok().and_then(|s| s.parse().ok()).unwrap_or(1);
    let threads: usize = std::env::var("VERIF_THREADS")
        .ok()
        .and_then(|s| s.parse().ok())
        .unwrap_or_else(|| std::thread::available_parallelism().map(|n| n.get()).unwrap_or(8).min(16));
    let verif_dir = std::env::var("VERIF_DIR").unwrap_or_else(|_| "/verif".to_string()).into();
    let ctx = Ctx { id, tier, seed, threads, start: Instant::now(), verif_dir };
    install_panic_hook();
    // wall-clock watchdog: its firing is never a violation, only "inconclusive"
    let limit = std::env::var("VERIF_WATCHDOG_S").ok().and_then(|s| s.parse().ok()).unwrap_or(if tier == Tier::Quick { 1500u64 } else { 6 * 3600 });
    {
        let id = id.to_string();
        std::thread::spawn(move || {
            std::thread::sleep(std::time::Duration::from_secs(limit));
            println!("INCONCLUSIVE property={id} reason=watchdog: the monitor did not finish within {limit} s");
            std::process::exit(2);
        });
    }
    let code = vharness::mon::dispatch(&ctx);
    std::process::exit(code);
}
