//! C03 Flat and deep expression forms are interchangeable.
use crate::core::{catch, finish, run_workers, share, Ctx, Report, Stats};
use crate::rng::Rng;
use crate::soup::{gen_semi_soup, gen_soup, shrink_tokens, soup_alphabet};
use crate::sym::{install, table_desc, Table, DX, FX};
use crate::sympaths::{judge, observe, run_path, Fail, Obs, PATHS, R};
use crate::tree::*;
use crate::treecase::{expect, first_mismatch_with, record_tree_violation, used_ops_desc, Expect};
use exmex::Express;
use serde_json::json;

enum Form<'a> {
    Flat(FX),
    Deep(DX<'a>),
}

/// random history of conversions starting from the flat or the deep parse; observation after
/// every step
fn history(text: &str, start_flat: bool, steps: usize) -> Vec<(String, R)> {
    let mut out = vec![];
    let r = catch(|| {
        let mut out: Vec<(String, R)> = vec![];
        let mut cur = if start_flat {
            match FX::parse(text) {
                Ok(f) => Form::Flat(f),
                Err(e) => return vec![("parse-flat".to_string(), Err(Fail::Parse(e.msg().to_string())))],
            }
        } else {
            match DX::parse(text) {
                Ok(d) => Form::Deep(d),
                Err(e) => return vec![("parse-deep".to_string(), Err(Fail::Parse(e.msg().to_string())))],
            }
        };
        let mut name = if start_flat { "flat".to_string() } else { "deep".to_string() };
        for _ in 0..=steps {
            let o = match &cur {
                Form::Flat(f) => observe(f),
                Form::Deep(d) => observe(d),
            };
            out.push((name.clone(), o));
            cur = match cur {
                Form::Flat(f) => match f.to_deepex() {
                    Ok(d) => {
                        name.push_str(">deep");
                        Form::Deep(d)
                    }
                    Err(e) => {
                        out.push((format!("{name}>deep"), Err(Fail::Conv(e.msg().to_string()))));
                        return out;
                    }
                },
                Form::Deep(d) => match FX::from_deepex(d) {
                    Ok(f) => {
                        name.push_str(">flat");
                        Form::Flat(f)
                    }
                    Err(e) => {
                        out.push((format!("{name}>flat"), Err(Fail::Conv(e.msg().to_string()))));
                        return out;
                    }
                },
            };
        }
        out
    });
    match r {
        Ok(v) => out.extend(v),
        Err(m) => out.push(("history".into(), Err(Fail::Panic(m)))),
    }
    out
}

fn collect_ops(t: &Tree, table: &Table, un_all: &mut Vec<String>, bin_all: &mut Vec<String>, un_var: &mut Vec<String>, bin_var: &mut Vec<String>, const_op: &mut bool) -> bool {
    match t {
        Tree::Lit(_) | Tree::Const(_) => false,
        Tree::Var(_) => true,
        Tree::Un(o, a) => {
            let v = collect_ops(a, table, un_all, bin_all, un_var, bin_var, const_op);
            un_all.push(table[*o].name.to_string());
            if v {
                un_var.push(table[*o].name.to_string());
            } else {
                *const_op = true;
            }
            v
        }
        Tree::Bin(o, a, b) => {
            let va = collect_ops(a, table, un_all, bin_all, un_var, bin_var, const_op);
            let vb = collect_ops(b, table, un_all, bin_all, un_var, bin_var, const_op);
            bin_all.push(table[*o].name.to_string());
            if va || vb {
                bin_var.push(table[*o].name.to_string());
            } else {
                *const_op = true;
            }
            va || vb
        }
    }
}

type Listing = (&'static str, Vec<String>, Vec<String>, Vec<String>);

fn listings(text: &str) -> Result<Vec<Listing>, String> {
    catch(|| -> Result<Vec<Listing>, String> {
        let e = |x: exmex::ExError| x.msg().to_string();
        let f = FX::parse(text).map_err(e)?;
        let d = DX::parse(text).map_err(e)?;
        let fw = FX::parse_wo_compile(text).map_err(e)?;
        let f2 = FX::from_deepex(d.clone()).map_err(e)?;
        let d2 = f.clone().to_deepex().map_err(e)?;
        fn l<'a, E: Express<'a, crate::sym::Sym>>(n: &'static str, x: &E) -> Listing {
            (n, x.unary_reprs().to_vec(), x.binary_reprs().to_vec(), x.operator_reprs().to_vec())
        }
        Ok(vec![l("flat", &f), l("deep", &d), l("flat_wo", &fw), l("deep2flat", &f2), l("flat2deep", &d2)])
    })
    .unwrap_or_else(|m| Err(format!("panic: {m}")))
}

/// first problem with the operator listings of all forms of `text`
fn listing_problem(tree: &Tree, table: &Table, text: &str) -> Option<String> {
    let (mut ua, mut ba, mut uv, mut bv, mut co) = (vec![], vec![], vec![], vec![], false);
    collect_ops(tree, table, &mut ua, &mut ba, &mut uv, &mut bv, &mut co);
    let ls = match listings(text) {
        Ok(ls) => ls,
        Err(e) => return Some(format!("listing failed: {e}")),
    };
    let sorted_dedup = |v: &Vec<String>| {
        let mut w = v.clone();
        w.sort();
        w.dedup();
        &w == v
    };
    for (nm, u, b, a) in &ls {
        if !sorted_dedup(u) || !sorted_dedup(b) || !sorted_dedup(a) {
            return Some(format!("{nm}: listing not sorted/duplicate-free: {u:?} {b:?} {a:?}"));
        }
        if !u.iter().all(|x| ua.contains(x)) || !b.iter().all(|x| ba.contains(x)) {
            return Some(format!("{nm}: lists an operator absent from the text: unary {u:?} binary {b:?}"));
        }
        if !uv.iter().all(|x| u.contains(x)) || !bv.iter().all(|x| b.contains(x)) {
            return Some(format!("{nm}: misses an operator applied to a variable-dependent operand: unary {u:?} (need {uv:?}) binary {b:?} (need {bv:?})"));
        }
        let mut all = u.clone();
        all.extend(b.clone());
        all.sort();
        all.dedup();
        if &all != a {
            return Some(format!("{nm}: operator_reprs {a:?} is not the union of unary {u:?} and binary {b:?}"));
        }
    }
    if !co {
        for (nm, u, b, _) in &ls[1..] {
            if u != &ls[0].1 || b != &ls[0].2 {
                return Some(format!("{nm} lists {u:?} {b:?} but flat lists {:?} {:?} although no constant sub-expression exists", ls[0].1, ls[0].2));
            }
        }
    }
    None
}

fn history_problem(ex: &Expect, text: &str, start_flat: bool, steps: usize) -> Option<(String, String)> {
    for (name, r) in history(text, start_flat, steps) {
        if let Some(m) = judge(&r, &ex.vars, &ex.norm, &ex.comm) {
            return Some((name, m.describe()));
        }
    }
    None
}

fn same_ok(a: &Obs, b: &Obs, comm: &[bool; 64]) -> bool {
    a.vars == b.vars && ac_norm(&a.val, comm) == ac_norm(&b.val, comm)
}

/// Known finding K2: "prefix style" strings. exmex deliberately accepts a binary operator
/// in operand position followed by its operands (`/ 1 2 * 3`, pinned by the baseline test
/// `test_binary_function_style`) by simply zipping the operator list with the operand list. The
/// flat form zips over the whole text, the deep form per parenthesis level, so the two disagree
/// when such an operator meets a parenthesised group (`==(w==2)&&3.5y`). The class is recognised
/// on the token level by the reference lexer: a binary-only operator where an operand is
/// expected, unless it is call notation `op( .. , .. )`.
pub fn in_prefix_style_class(text: &str, table: &Table) -> bool {
    use crate::model::{lex, Lits, MTok};
    let Ok(toks) = lex(text, table, Lits::Sym) else { return false };
    for (i, t) in toks.iter().enumerate() {
        let MTok::Op(o) = t else { continue };
        let spec = &table[*o];
        if spec.bin.is_none() || spec.un.is_some() {
            continue;
        }
        let operand_expected = match i.checked_sub(1).map(|j| &toks[j]) {
            None => true,
            Some(MTok::Open) | Some(MTok::Comma) => true,
            Some(MTok::Op(p)) => table[*p].constant.is_none(),
            _ => false,
        };
        if !operand_expected {
            continue;
        }
        // call notation: directly followed by a parenthesis group with a top-level comma
        let mut is_call = false;
        if let Some(MTok::Open) = toks.get(i + 1) {
            let mut d = 0;
            for t2 in &toks[i + 1..] {
                match t2 {
                    MTok::Open => d += 1,
                    MTok::Close => {
                        d -= 1;
                        if d == 0 {
                            break;
                        }
                    }
                    MTok::Comma if d == 1 => is_call = true,
                    _ => {}
                }
            }
        }
        if !is_call {
            return true;
        }
    }
    false
}

/// the listed witnesses of K2 (text, operator table)
const K2_WITNESSES: &[(&str, &str)] = &[
    ("==(w_1==2)&&3.5y", "-:b0p1 +:b1p0c:u1 ==:b2p2 &&:b3p1 ||:b4p0c cos:u5 lg10:u6 log2:u7 ln:u8 PI:=90.5 E:=91.5"),
    ("mx(dot3.5y)=={z}1", "/:b0p99 dot:b1p99c mx:b2p0c ==:b3p98 andalso:b4p99c lg10:u5 sqrt:u6 lg2:u7 PI:=90.5"),
    ("mx(2mxλlg10)lg2x", "lg:b0p3 mx:b1p1 log:u2 lg10:u3 lg2:u4 cos:u5 λ:u6"),
];

fn known_catalogue(st: &mut Stats) {
    for (text, tdesc) in K2_WITNESSES {
        let Some(table) = crate::sym::parse_table_desc(tdesc) else { continue };
        install(&table);
        let comm = comm_slots(&table);
        st.bump("known_finding_witnesses_run");
        if let Some(what) = soup_problem(text, &comm, None) {
            st.violation(format!("K2|{text}"), text.len(), json!({"kind": "known-finding-witness", "text": text, "table": tdesc, "problem": what}));
        }
    }
}

/// soup: whenever both parsers accept, every form must agree with the flat one
fn soup_problem(text: &str, comm: &[bool; 64], st: Option<&mut Stats>) -> Option<String> {
    let f = run_path("flat", text);
    let d = run_path("deep", text);
    if let Some(st) = st {
        match (&f, &d) {
            (Ok(o), Ok(_)) => {
                st.bump("soup_both_accept");
                st.class(("soup", text.len(), o.val.size(), o.vars.len()));
            }
            (Err(Fail::Parse(_)), Err(Fail::Parse(_))) => st.bump("soup_both_reject"),
            (Ok(_), Err(Fail::Parse(_))) | (Err(Fail::Parse(_)), Ok(_)) => st.bump("soup_acceptance_differs_not_judged"),
            _ => {}
        }
    }
    for (n, r) in [("flat", &f), ("deep", &d)] {
        if let Err(Fail::Panic(m)) = r {
            return Some(format!("{n} panicked: {m}"));
        }
    }
    let (Ok(fo), Ok(dobs)) = (&f, &d) else { return None };
    if !same_ok(fo, dobs, comm) {
        return Some(format!("flat {fo:?} vs deep {dobs:?}"));
    }
    for p in ["flat2deep", "deep2flat", "flat2deep2flat", "deep2flat2deep"] {
        match run_path(p, text) {
            Ok(o) => {
                if !same_ok(fo, &o, comm) {
                    return Some(format!("flat {fo:?} vs {p} {o:?}"));
                }
            }
            Err(e) => return Some(format!("{p} failed on a text both parsers accept: {} {}", e.kind(), e.msg())),
        }
    }
    None
}

/// flat / deep differential through the real float instantiation on texts that Rust's float
/// parser would read as numbers (the data type's `FromStr` must not decide what a text means in
/// one form only)
fn float_lookalikes(st: &mut Stats) {
    use exmex::{DeepEx, FlatEx};
    for text in crate::mon::c13::FLOAT_LOOKALIKES {
        st.bump("float_lookalike_texts");
        let r = crate::core::catch(|| -> Option<String> {
            let f = FlatEx::<f64>::parse(text).ok()?;
            let d = DeepEx::<f64>::parse(text).ok()?;
            let forms: Vec<(&str, Vec<String>, Option<f64>)> = {
                let ev = |names: &[String], v: exmex::ExResult<f64>| (names.to_vec(), v.ok());
                let vals = |n: usize| vec![2.5; n];
                let f2 = FlatEx::<f64>::from_deepex(d.clone()).ok()?;
                let d2 = f.clone().to_deepex().ok()?;
                let a = ev(f.var_names(), f.eval(&vals(f.var_names().len())));
                let b = ev(d.var_names(), d.eval(&vals(d.var_names().len())));
                let c = ev(f2.var_names(), f2.eval(&vals(f2.var_names().len())));
                let e = ev(d2.var_names(), d2.eval(&vals(d2.var_names().len())));
                vec![("flat", a.0, a.1), ("deep", b.0, b.1), ("deep->flat", c.0, c.1), ("flat->deep", e.0, e.1)]
            };
            for (name, vars, val) in &forms[1..] {
                let same_val = match (val, &forms[0].2) {
                    (Some(a), Some(b)) => a.to_bits() == b.to_bits() || (a.is_nan() && b.is_nan()),
                    (None, None) => true,
                    _ => false,
                };
                if vars != &forms[0].1 || !same_val {
                    return Some(format!("{name}: variables {vars:?}, value {val:?}; flat: variables {:?}, value {:?}", forms[0].1, forms[0].2));
                }
            }
            None
        });
        let p = match r {
            Ok(p) => p,
            Err(m) => Some(format!("panic: {m}")),
        };
        if let Some(p) = p {
            st.violation(format!("float-lookalike|{text}"), text.len(), json!({"kind": "flat-deep-differential-f64", "text": text, "problem": p}));
        }
    }
}

pub fn run(ctx: &Ctx) -> i32 {
    let n_tree = ctx.n(120_000, 6_000_000);
    let n_soup = ctx.n(240_000, 10_000_000);
    let stats = run_workers(ctx, 3, |w, rng, st| {
        if w == 0 {
            known_catalogue(st);
            float_lookalikes(st);
        }
        let quota = share(n_tree, w, ctx.threads);
        let mut table = gen_table(rng, &TableCfg::default());
        for i in 0..quota {
            if i % 16 == 0 {
                let pr = if rng.chance(1, 2) { 4 } else { 100 };
                table = gen_table(rng, &TableCfg { prio_range: pr, ..TableCfg::default() });
                // priorities are signed numbers: every sixth table lies (partly) below zero, the
                // spread stays below 100
                if rng.chance(1, 5) {
                    let shift = if rng.chance(2, 3) { rng.range(1, 99) as i64 } else { 0 };
                    let scale = if shift == 0 || rng.chance(1, 2) { [2, 13, 100, 1000][rng.below(4)] } else { 1 };
                    for o in table.iter_mut() {
                        if let Some(b) = o.bin.as_mut() {
                            b.prio = (b.prio - shift) * scale;
                        }
                    }
                    if shift > 0 {
                        st.bump("tables_with_negative_priorities");
                    }
                    if scale > 1 {
                        st.bump("tables_with_priorities_spread_wider_than_the_usual_nesting_steps");
                    }
                }
                install(&table);
            }
            let gcfg = GenCfg { lit_num: rng.below(9), un_num: rng.below(4), chain_num: rng.below(9), ..GenCfg::default() };
            let size = match rng.below(10) {
                0..=6 => rng.range(1, 10),
                7..=8 => rng.range(11, 40),
                _ => rng.range(41, 90),
            };
            let tree = if rng.chance(1, 8) {
                st.bump("trees_long_single_level_chain");
                let n = rng.range(15, 90);
                gen_chain_tree(rng, &table, n, &gcfg)
            } else {
                gen_tree(rng, &table, size, &gcfg)
            };
            let rcfg = if rng.chance(1, 2) { RenderCfg::plain() } else { RenderCfg::random(rng) };
            let text = render(&tree, &table, rng, &rcfg);
            st.bump("cases");
            st.bump("tree_cases");
            st.class(tree.shape_key(&table));
            let ex = expect(&tree, &table);
            if let Some((path, m)) = first_mismatch_with(&ex, &text, PATHS) {
                record_tree_violation(st, &tree, &table, &text, path, &m, PATHS, None);
                continue;
            }
            // conversion history
            let steps = rng.below(7);
            let start_flat = rng.chance(1, 2);
            st.add("conversion_steps", steps as u64);
            st.max("max_history_len", steps as u64);
            if let Some((name, what)) = history_problem(&ex, &text, start_flat, steps) {
                if st.violations.len() < 6 {
                    let mut pred = |t: &Tree| history_problem(&expect(t, &table), &render_plain(t, &table), start_flat, steps).is_some();
                    let small = if pred(&tree) { shrink_tree(&tree, &mut pred, 300) } else { tree.clone() };
                    let stext = if small == tree { text.clone() } else { render_plain(&small, &table) };
                    st.violation(
                        format!("history|{}|{}|{}", if start_flat { "flat" } else { "deep" }, stext, used_ops_desc(&small, &table)),
                        stext.len(),
                        json!({"kind": "conversion-history", "text": stext, "table": table_desc(&table), "start": if start_flat {"flat"} else {"deep"}, "steps": steps, "first_bad_form": name, "mismatch": what}),
                    );
                } else {
                    st.bump("violations_raw");
                }
            }
            // operator listings over a table with more than 64 operators (every 16th case)
            if i % 16 == 7 {
                let big: Table = (0..rng.range(66, 100))
                    .map(|k| {
                        if k % 7 == 3 {
                            crate::sym::OpSpec::un(crate::sym::intern(&format!("f{k}q")), (k % 64) as u8)
                        } else {
                            crate::sym::OpSpec::bin(crate::sym::intern(&format!("o{k}q")), (k % 64) as u8, (k % 5) as i64, false)
                        }
                    })
                    .collect();
                install(&big);
                // a tree that uses a handful of the operators, preferably with high indices
                let few: Vec<usize> = (0..5).map(|_| if rng.chance(2, 3) { rng.range(60, big.len() - 1) } else { rng.below(big.len()) }).collect();
                let small: Table = few.iter().map(|k| big[*k].clone()).collect();
                let k = rng.range(2, 7);
                let t_small = gen_tree(rng, &small, k, &GenCfg { lit_num: 2, un_num: 2, ..GenCfg::default() });
                fn remap(t: &Tree, few: &[usize]) -> Tree {
                    match t {
                        Tree::Un(o, a) => Tree::un(few[*o], remap(a, few)),
                        Tree::Bin(o, a, b) => Tree::bin(few[*o], remap(a, few), remap(b, few)),
                        _ => t.clone(),
                    }
                }
                // `small` may hold only binary or only unary operators; gen_tree copes with both
                let t_big = remap(&t_small, &few);
                let text_big = render_plain(&t_big, &big);
                st.bump("listing_cases_with_more_than_64_operators_in_the_table");
                if let Some(what) = listing_problem(&t_big, &big, &text_big) {
                    st.violation(format!("listing-big-table|{text_big}|{}", big.len()), text_big.len(), json!({"kind": "operator-listing", "text": text_big, "operators_in_table": big.len(), "problem": what}));
                }
                install(&table);
            }
            // operator listings
            st.bump("listing_cases");
            if let Some(what) = listing_problem(&tree, &table, &text) {
                if st.violations.len() < 6 {
                    let mut pred = |t: &Tree| listing_problem(t, &table, &render_plain(t, &table)).is_some();
                    let small = if pred(&tree) { shrink_tree(&tree, &mut pred, 300) } else { tree.clone() };
                    let stext = if small == tree { text.clone() } else { render_plain(&small, &table) };
                    let what = listing_problem(&small, &table, &stext).unwrap_or(what);
                    st.violation(
                        format!("listing|{}|{}", stext, used_ops_desc(&small, &table)),
                        stext.len(),
                        json!({"kind": "operator-listing", "text": stext, "table": table_desc(&table), "problem": what}),
                    );
                } else {
                    st.bump("violations_raw");
                }
            }
            if st.samples.len() < st.max_samples && size > 3 && size < 8 {
                st.sample(json!({"text": text, "table": table_desc(&table), "history_start": if start_flat {"flat"} else {"deep"}, "conversions": steps}));
            }
        }
        // soup
        let quota = share(n_soup, w, ctx.threads);
        let mut alphabet = soup_alphabet(&table);
        let mut comm = comm_slots(&table);
        for i in 0..quota {
            if i % 32 == 0 {
                let pr = if rng.chance(1, 2) { 3 } else { 100 };
                table = gen_table(rng, &TableCfg { prio_range: pr, max_bin: 6, ..TableCfg::default() });
                install(&table);
                alphabet = soup_alphabet(&table);
                comm = comm_slots(&table);
            }
            let toks = if rng.chance(1, 2) { gen_soup(rng, &alphabet, 14) } else { gen_semi_soup(rng, &table, 10) };
            let text = toks.concat();
            st.bump("cases");
            st.bump("soup_cases");
            if in_prefix_style_class(&text, &table) {
                st.bump("soup_strings_in_known_finding_class_K2_not_judged");
                continue;
            }
            if let Some(what) = soup_problem(&text, &comm, Some(st)) {
                if st.violations.len() < 6 {
                    let mut pred = |t: &str| !in_prefix_style_class(t, &table) && soup_problem(t, &comm, None).is_some();
                    let small = shrink_tokens(&toks, &mut pred, 300).concat();
                    let what = soup_problem(&small, &comm, None).unwrap_or(what);
                    st.violation(
                        format!("soup|{small}|{}", table_desc(&table)),
                        small.len() + 1000,
                        json!({"kind": "soup-flat-vs-deep", "text": small, "table": table_desc(&table), "problem": what, "original_text": text}),
                    );
                } else {
                    st.bump("violations_raw");
                }
            }
        }
    });
    let _: Option<Rng> = None;
    let report = Report::new(
        "(1) random trees x random tables rendered in random spellings: ten fixed parse/convert paths, then a random conversion history (0..6 to_deepex/from_deepex steps from the flat or the deep parse) observed after every step: variable list and term (mod AC) must equal the reference tree's; (2) operator listings of flat / deep / uncompiled / converted forms against the tree (sorted, duplicate-free, nothing absent from the text, every operator over a variable-dependent operand present, flat == deep when no constant sub-expression with an operator exists); (3) token soup and near-well-formed soup: whenever FlatEx::parse and DeepEx::parse both accept, all forms and conversions must agree (different acceptance is counted, not judged). distinct_nontrivial = distinct tree shape/priority/flag classes + distinct accepted-soup classes.",
    )
    .assume("the property does not demand equal acceptance of sloppy strings by the two parsers")
    .assume("soup strings in the known-finding class K2 (prefix style: a binary-only operator where an operand is expected, not call notation) are counted and not judged; its listed witnesses are run as a fixed catalogue")
    .require("tables_with_negative_priorities", 100)
    .require("tables_with_priorities_spread_wider_than_the_usual_nesting_steps", 100)
    .require("conversion_steps", 1000)
    .require("listing_cases", 1000)
    .require("listing_cases_with_more_than_64_operators_in_the_table", 100)
    .require("soup_both_accept", 1000);
    finish(ctx, stats, report)
}
