//! C10 Operator application on expressions is a homomorphism.
use crate::core::{catch, finish, run_workers, share, Ctx, Report, Stats};
use crate::diffutil::{close, sample_point, sub_table, rat_point};
use crate::num::{eval_tree, Guard, Rat, DR, FR, POISON};
use crate::rng::Rng;
use crate::stdtables::FLOAT_UNARY;
use crate::sym::{install, intern, table_desc, BinSpec, OpSpec, Table, DX, FX};
use crate::sympaths::{judge, observe};
use crate::tree::*;
use crate::treecase::expect;
use exmex::prelude::*;
use exmex::DeepEx;
use serde_json::json;

// ---------------------------------------------------------------------------------------------
// (A) application by name over the term algebra, flat and deep

enum Pool<'a> {
    Flat(Vec<(Tree, FX)>),
    Deep(Vec<(Tree, DX<'a>)>),
}

fn by_name_history(rng: &mut Rng, table: &Table, st: &mut Stats) {
    let mut gcfg = GenCfg { lit_num: 4, un_num: 1, ..GenCfg::default() };
    let many = rng.chance(1, 4);
    if many {
        // unions beyond the inline capacity of 16 variable names
        gcfg.vars = (0..26).map(|k| format!("{}{}", ["v", "a", "w", "Z"][k % 4], k)).collect();
        gcfg.lit_num = 1;
        st.bump("by_name_histories_with_many_variables");
    }
    let seeds: Vec<(Tree, String)> = (0..6)
        .map(|_| {
            let k = if many { rng.range(6, 14) } else { rng.range(1, 5) };
            let t = gen_tree(rng, table, k, &gcfg);
            let rc = RenderCfg::random(rng);
            let s = render(&t, table, rng, &rc);
            (t, s)
        })
        .collect();
    let overloaded_neg = rng.chance(1, 2);
    let use_flat = rng.chance(1, 2);
    // flat operands may also be uncompiled (their literals still carry their unary operators)
    let uncompiled = use_flat && rng.chance(1, 3);
    if uncompiled {
        st.bump("by_name_histories_on_uncompiled_flat_operands");
    }
    let bins: Vec<usize> = (0..table.len()).filter(|i| table[*i].bin.is_some()).collect();
    let uns: Vec<usize> = (0..table.len()).filter(|i| table[*i].un.is_some()).collect();
    let steps = rng.range(1, 8);
    st.bump("cases");
    st.bump("by_name_histories");
    let mut hist: Vec<String> = vec![];
    let r = catch(|| -> Option<String> {
        let mut pool = if use_flat {
            Pool::Flat(seeds.iter().map(|(t, s)| (t.clone(), if uncompiled { FX::parse_wo_compile(s) } else { FX::parse(s) }.expect("seed parses"))).collect())
        } else {
            Pool::Deep(seeds.iter().map(|(t, s)| (t.clone(), DX::parse(s).expect("seed parses"))).collect())
        };
        for _ in 0..steps {
            let len = match &pool {
                Pool::Flat(p) => p.len(),
                Pool::Deep(p) => p.len(),
            };
            let (i, j) = (rng.below(len), rng.below(len));
            let kind = rng.below(10);
            st.bump("by_name_steps");
            if kind == 0 {
                // unknown or wrong-arity names must be errors
                let bad: &'static str = match rng.below(4) {
                    0 => "nosuchop",
                    1 => "",
                    2 => table[*rng.pick(&uns)].name,
                    _ => " +",
                };
                let is_err = match &pool {
                    Pool::Flat(p) => {
                        let unary_only = table.iter().any(|o| o.name == bad && o.bin.is_none());
                        let r1 = p[i].1.clone().operate_binary(p[j].1.clone(), bad);
                        (unary_only || !table.iter().any(|o| o.name == bad)) == r1.is_err()
                    }
                    Pool::Deep(p) => {
                        let unary_only = table.iter().any(|o| o.name == bad && o.bin.is_none());
                        let r1 = p[i].1.clone().operate_binary(p[j].1.clone(), bad);
                        (unary_only || !table.iter().any(|o| o.name == bad)) == r1.is_err()
                    }
                };
                st.bump("unknown_operator_probes");
                if !is_err {
                    return Some(format!("operate_binary with operator name {bad:?} did not behave as an unknown/known operator should"));
                }
                let bad_un: &'static str = if rng.chance(1, 2) { "nosuchfn" } else { table[*rng.pick(&bins)].name };
                let should_fail = !table.iter().any(|o| o.name == bad_un && o.un.is_some());
                let failed = match &pool {
                    Pool::Flat(p) => p[i].1.clone().operate_unary(bad_un).is_err(),
                    Pool::Deep(p) => p[i].1.clone().operate_unary(bad_un).is_err(),
                };
                if should_fail != failed {
                    return Some(format!("operate_unary with operator name {bad_un:?}: error expected = {should_fail}, got error = {failed}"));
                }
                continue;
            }
            let (desc, new_tree) = if kind < 6 {
                let o = *rng.pick(&bins);
                (format!("#{i} {} #{j}", table[o].name), Tree::bin(o, Tree::lit("0"), Tree::lit("0")))
            } else {
                let o = *rng.pick(&uns);
                (format!("{}(#{i})", table[o].name), Tree::un(o, Tree::lit("0")))
            };
            hist.push(desc);
            match &mut pool {
                Pool::Flat(p) => {
                    let (tree, res) = match &new_tree {
                        Tree::Bin(o, _, _) => (Tree::bin(*o, p[i].0.clone(), p[j].0.clone()), p[i].1.clone().operate_binary(p[j].1.clone(), table[*o].name)),
                        Tree::Un(o, _) => (Tree::un(*o, p[i].0.clone()), p[i].1.clone().operate_unary(table[*o].name)),
                        _ => unreachable!(),
                    };
                    let e = match res {
                        Ok(e) => e,
                        Err(e) => return Some(format!("application failed: {}", e.msg())),
                    };
                    let ex = expect(&tree, table);
                    if let Some(m) = judge(&observe(&e), &ex.vars, &ex.norm, &ex.comm) {
                        return Some(m.describe());
                    }
                    p.push((tree, e));
                }
                Pool::Deep(p) => {
                    let (tree, res) = match &new_tree {
                        Tree::Bin(o, _, _) => (Tree::bin(*o, p[i].0.clone(), p[j].0.clone()), p[i].1.clone().operate_binary(p[j].1.clone(), table[*o].name)),
                        // the overloaded unary minus is the table's unary `-`, whatever that is
                        Tree::Un(o, _) if table[*o].name == "-" && overloaded_neg => (Tree::un(*o, p[i].0.clone()), -p[i].1.clone()),
                        Tree::Un(o, _) => (Tree::un(*o, p[i].0.clone()), p[i].1.clone().operate_unary(table[*o].name)),
                        _ => unreachable!(),
                    };
                    let e = match res {
                        Ok(e) => e,
                        Err(e) => return Some(format!("application failed: {}", e.msg())),
                    };
                    let ex = expect(&tree, table);
                    if let Some(m) = judge(&observe(&e), &ex.vars, &ex.norm, &ex.comm) {
                        return Some(m.describe());
                    }
                    // the flat form of the result agrees as well
                    if let Ok(f) = FX::from_deepex(e.clone()) {
                        if let Some(m) = judge(&observe(&f), &ex.vars, &ex.norm, &ex.comm) {
                            return Some(format!("after conversion to flat: {}", m.describe()));
                        }
                    }
                    p.push((tree, e));
                }
            }
        }
        None
    });
    let problem = match r {
        Ok(p) => p,
        Err(m) => Some(format!("panic: {m}")),
    };
    st.class((use_flat, hist.clone()));
    if let Some(p) = problem {
        let seeds_txt: Vec<&String> = seeds.iter().map(|s| &s.1).collect();
        st.violation(
            format!("by-name|{}|{:?}|{:?}", if use_flat { "flat" } else { "deep" }, seeds_txt, hist),
            hist.len() * 20 + seeds_txt.iter().map(|s| s.len()).sum::<usize>(),
            json!({"kind": "operator-application-by-name", "form": if use_flat {"FlatEx"} else {"DeepEx"}, "pool_seeds": seeds_txt, "steps": hist, "table": table_desc(table), "problem": p}),
        );
    }
}

/// The overloaded `^` and unary `-` of deep expressions mean whatever the operator table says
/// `^` and `-` mean (not necessarily a power, not necessarily an involution): the overload, the
/// application by name and the parsed text agree, also with the constants 0 and 1 as operands.
fn overloads_follow_the_table(rng: &mut Rng, table: &Table, st: &mut Stats) {
    use crate::w64::{DW, W64};
    let has_xor = table.iter().any(|o| o.name == "^" && o.bin.is_some());
    let has_neg = table.iter().any(|o| o.name == "-" && o.un.is_some());
    if !has_xor && !has_neg {
        return;
    }
    let atoms = ["x", "y", "0", "1", "2", "1", "0", "x"];
    let (a, b) = (*rng.pick(&atoms), *rng.pick(&atoms));
    let vals = [W64(rng.range(2, 90) as i64), W64(rng.range(2, 90) as i64)];
    st.bump("cases");
    st.bump("overloads_compared_with_the_table");
    let r = catch(|| -> Option<String> {
        let ev = |e: exmex::ExResult<DW>| -> Option<(Vec<String>, W64)> {
            let e = e.ok()?;
            let n = e.var_names().len();
            Some((e.var_names().to_vec(), e.eval(&vals[..n]).ok()?))
        };
        if has_xor {
            let by_overload = ev(DW::parse(a).and_then(|l| DW::parse(b).and_then(|r| l ^ r)));
            let by_name = ev(DW::parse(a).and_then(|l| DW::parse(b).and_then(|r| l.operate_binary(r, "^"))));
            let by_text = ev(DW::parse(&format!("({a})^({b})")));
            if by_overload != by_name || by_name != by_text {
                return Some(format!("({a}) ^ ({b}): overloaded operator gives {by_overload:?}, operate_binary by name {by_name:?}, the parsed text {by_text:?}"));
            }
        }
        if has_neg {
            let k = rng.range(1, 3);
            let mut by_overload = DW::parse(a);
            let mut by_name = DW::parse(a);
            let mut text = a.to_string();
            for _ in 0..k {
                by_overload = by_overload.and_then(|e| -e);
                by_name = by_name.and_then(|e| e.operate_unary("-"));
                text = format!("-({text})");
            }
            let (o, n, t) = (ev(by_overload), ev(by_name), ev(DW::parse(&text)));
            if o != n || n != t {
                return Some(format!("{k} times unary minus on {a}: overloaded operator gives {o:?}, operate_unary by name {n:?}, the parsed text {text} {t:?}"));
            }
        }
        None
    });
    let p = match r {
        Ok(p) => p,
        Err(m) => Some(format!("panic: {m}")),
    };
    if let Some(p) = p {
        st.violation(format!("overload|{}", p.chars().take(50).collect::<String>()), p.len(), json!({"kind": "overloaded-operator-vs-table", "table": table_desc(table), "values": format!("{vals:?}"), "problem": p}));
    }
}

/// the named unary helpers of DeepEx over a table that contains their names
fn named_helpers(rng: &mut Rng, st: &mut Stats) {
    let names = ["abs", "sin", "cos", "tan", "sinh", "cosh", "tanh", "asin", "acos", "atan", "signum", "log", "log2", "log10", "ln", "round", "floor", "ceil", "exp", "sqrt", "cbrt", "fract", "trunc"];
    let mut table: Table = vec![OpSpec::dual(intern("+"), 0, 0, true, 0), OpSpec { name: intern("*"), bin: Some(BinSpec { slot: 1, prio: 2, comm: true }), un: None, constant: None }];
    for (i, n) in names.iter().enumerate() {
        table.push(OpSpec::un(intern(n), (i + 2) as u8));
    }
    install(&table);
    let gcfg = GenCfg { lit_num: 3, un_num: 1, ..GenCfg::default() };
    let k = rng.range(1, 4);
    let t = gen_tree(rng, &table, k, &gcfg);
    let text = render_plain(&t, &table);
    st.bump("cases");
    let which = rng.below(names.len());
    let r = catch(|| -> Option<String> {
        let d = DX::parse(&text).ok()?;
        let res = match which {
            0 => d.abs(), 1 => d.sin(), 2 => d.cos(), 3 => d.tan(), 4 => d.sinh(), 5 => d.cosh(), 6 => d.tanh(), 7 => d.asin(), 8 => d.acos(), 9 => d.atan(),
            10 => d.signum(), 11 => d.log(), 12 => d.log2(), 13 => d.log10(), 14 => d.ln(), 15 => d.round(), 16 => d.floor(), 17 => d.ceil(), 18 => d.exp(),
            19 => d.sqrt(), 20 => d.cbrt(), 21 => d.fract(), _ => d.trunc(),
        };
        let e = match res {
            Ok(e) => e,
            Err(e) => return Some(format!("helper {} failed: {}", names[which], e.msg())),
        };
        let tree = Tree::un(which + 2, t.clone());
        let ex = expect(&tree, &table);
        judge(&observe(&e), &ex.vars, &ex.norm, &ex.comm).map(|m| format!("helper {}: {}", names[which], m.describe()))
    });
    st.bump(&format!("helper_{}", names[which]));
    st.bump("named_helper_applications");
    let p = match r {
        Ok(p) => p,
        Err(m) => Some(format!("panic: {m}")),
    };
    if let Some(p) = p {
        st.violation(format!("helper|{}|{text}", names[which]), text.len(), json!({"kind": "named-helper", "text": text, "helper": names[which], "problem": p}));
    }
}

// ---------------------------------------------------------------------------------------------
// (B) overloaded arithmetic with neutral-element shortcuts: exact rationals and f64

const SEEDS: &[&str] = &["x", "y", "z", "0", "1", "1-1", "2/2", "0.0", "1.0", "2", "x+y", "x*2", "0*x", "x-x", "y/2", "3", "x^2", "0.5", "z+1", "1*1", "2-1", "0/3", "-1", "-x"];

#[derive(Clone, Copy, Debug, PartialEq)]
enum AOp {
    Add,
    Sub,
    Mul,
    Div,
    Pow,
    Neg,
    Fun(usize),
}

fn arith_history(rng: &mut Rng, st: &mut Stats, exact: bool) {
    let un_names: Vec<&str> = FLOAT_UNARY.to_vec();
    let mut names: Vec<&str> = vec!["+", "-", "*", "/", "^"];
    if !exact {
        names.extend(un_names.iter());
    }
    let table = sub_table(&names, true);
    let idx = |n: &str| table.iter().position(|o| o.name == n).unwrap();
    let parse_ref = |s: &str| crate::model::parse(s, &table, crate::model::Lits::Number).expect("seed in model");
    let steps = rng.range(1, 7);
    st.bump("cases");
    st.bump(if exact { "arith_histories_exact" } else { "arith_histories_f64" });
    let mut hist: Vec<String> = vec![];
    let pts_f: Vec<Vec<f64>> = (0..2).map(|_| sample_point(rng, 3)).collect();
    let pts_r: Vec<Vec<Rat>> = (0..2).map(|_| rat_point(rng, 3)).collect();
    let seeds: Vec<&str> = (0..5).map(|_| *rng.pick(SEEDS)).collect();
    let mut script: Vec<(AOp, usize, usize)> = vec![];
    for s in 0..steps {
        let len = seeds.len() + s;
        let op = match rng.below(if exact { 11 } else { 13 }) {
            0 | 1 => AOp::Add,
            2 | 3 => AOp::Sub,
            4 | 5 => AOp::Mul,
            6 | 7 => AOp::Div,
            8 | 9 => AOp::Pow,
            10 => AOp::Neg,
            _ => AOp::Fun(rng.below(un_names.len())),
        };
        script.push((op, rng.below(len), rng.below(len)));
    }
    let r = catch(|| -> Option<String> {
        let mut trees: Vec<Tree> = seeds.iter().map(|s| parse_ref(s)).collect();
        macro_rules! drive {
            ($DE:ty, $FE:ty, $pts:expr, $exact:expr) => {{
                let mut pool: Vec<$DE> = seeds.iter().map(|s| <$DE>::parse(s).expect("seed parses")).collect();
                for (op, i, j) in &script {
                    let (a, b) = (pool[*i].clone(), pool[*j].clone());
                    let (res, tree, desc) = match op {
                        AOp::Add => (a + b, Tree::bin(idx("+"), trees[*i].clone(), trees[*j].clone()), format!("#{i} + #{j}")),
                        AOp::Sub => (a - b, Tree::bin(idx("-"), trees[*i].clone(), trees[*j].clone()), format!("#{i} - #{j}")),
                        AOp::Mul => (a * b, Tree::bin(idx("*"), trees[*i].clone(), trees[*j].clone()), format!("#{i} * #{j}")),
                        AOp::Div => (a / b, Tree::bin(idx("/"), trees[*i].clone(), trees[*j].clone()), format!("#{i} / #{j}")),
                        AOp::Pow => (a.pow(b), Tree::bin(idx("^"), trees[*i].clone(), trees[*j].clone()), format!("#{i}.pow(#{j})")),
                        AOp::Neg => (-a, Tree::un(idx("-"), trees[*i].clone()), format!("-#{i}")),
                        AOp::Fun(k) => (a.operate_unary(un_names[*k]), Tree::un(idx(un_names[*k]), trees[*i].clone()), format!("{}(#{i})", un_names[*k])),
                    };
                    hist.push(desc);
                    st.bump("arith_steps");
                    let e = match res {
                        Ok(e) => e,
                        Err(e) => {
                            if crate::core::is_zero_pow_zero(e.msg()) {
                                st.bump("zero_to_the_zero_errors_not_judged");
                                return None;
                            }
                            return Some(format!("application failed: {}", e.msg()));
                        }
                    };
                    // which shortcut could have fired?
                    let is_const = |t: &Tree, v: f64| !t.has_var() && {
                        let mut g = Guard::new();
                        eval_tree::<f64>(t, &table, &[], &[], &mut g) == v
                    };
                    match op {
                        AOp::Add if is_const(&trees[*i], 0.0) || is_const(&trees[*j], 0.0) => st.bump("shortcut: adding zero"),
                        AOp::Mul if is_const(&trees[*i], 0.0) || is_const(&trees[*j], 0.0) => st.bump("shortcut: multiplying by zero"),
                        AOp::Mul if is_const(&trees[*i], 1.0) || is_const(&trees[*j], 1.0) => st.bump("shortcut: multiplying by one"),
                        AOp::Div if is_const(&trees[*i], 0.0) => st.bump("shortcut: zero numerator"),
                        AOp::Div if is_const(&trees[*j], 1.0) => st.bump("shortcut: unit denominator"),
                        AOp::Pow if is_const(&trees[*j], 0.0) => st.bump("shortcut: exponent zero"),
                        AOp::Pow if is_const(&trees[*j], 1.0) => st.bump("shortcut: exponent one"),
                        AOp::Pow if is_const(&trees[*i], 0.0) => st.bump("shortcut: base zero"),
                        _ => {}
                    }
                    let want_vars = tree.vars();
                    if e.var_names() != want_vars.as_slice() {
                        return Some(format!("result lists {:?}, expected the sorted union {want_vars:?}", e.var_names()));
                    }
                    let flat = <$FE>::from_deepex(e.clone()).ok();
                    for p in $pts.iter() {
                        let all = ["x".to_string(), "y".to_string(), "z".to_string()];
                        let sub: Vec<_> = want_vars.iter().map(|v| p[all.iter().position(|a| a == v).unwrap()].clone()).collect();
                        let mut g = Guard::new();
                        let want = eval_tree(&tree, &table, &want_vars, &sub, &mut g);
                        if let Some(problem) = $exact(&e.eval(&sub).ok(), &flat.as_ref().and_then(|f| f.eval(&sub).ok()), &want, &g, st) {
                            return Some(format!("{problem} at {sub:?}"));
                        }
                    }
                    trees.push(tree);
                    pool.push(e);
                }
            }};
        }
        if exact {
            let cmp = |deep: &Option<Rat>, flat: &Option<Rat>, want: &Rat, g: &Guard, st: &mut Stats| -> Option<String> {
                if want.is_poison() || !g.ok {
                    st.bump("points_where_the_unsimplified_form_has_no_finite_value_not_judged");
                    return None;
                }
                st.bump("points_judged_exact");
                for (n, v) in [("deep", deep), ("flat", flat)] {
                    match v {
                        Some(v) if *v == *want => {}
                        Some(v) if v.is_poison() => return Some(format!("{n} value is not finite, the unsimplified form gives {want:?}")),
                        Some(v) => return Some(format!("{n} value {v:?}, the unsimplified form gives {want:?}")),
                        None => return Some(format!("{n} evaluation failed")),
                    }
                }
                None
            };
            drive!(DR, FR, pts_r, cmp);
        } else {
            let cmp = |deep: &Option<f64>, flat: &Option<f64>, want: &f64, g: &Guard, st: &mut Stats| -> Option<String> {
                if !g.ok || g.maxmag > 1e6 || !want.is_finite() {
                    st.bump("points_where_the_unsimplified_form_has_no_finite_value_not_judged");
                    return None;
                }
                st.bump("points_judged_f64");
                for (n, v) in [("deep", deep), ("flat", flat)] {
                    match v {
                        Some(v) if close(*v, *want, g.maxmag, 1e-9) => {}
                        Some(v) => return Some(format!("{n} value {v}, the unsimplified form gives {want}")),
                        None => return Some(format!("{n} evaluation failed")),
                    }
                }
                None
            };
            drive!(DeepEx<f64>, FlatEx<f64>, pts_f, cmp);
        }
        None
    });
    let _ = POISON;
    let p = match r {
        Ok(p) => p,
        Err(m) => Some(format!("panic: {m}")),
    };
    st.class((exact, seeds.clone(), hist.clone()));
    if let Some(p) = p {
        st.violation(
            format!("arith|{}|{seeds:?}|{hist:?}", if exact { "exact" } else { "f64" }),
            hist.len() * 10 + 50,
            json!({"kind": "overloaded-arithmetic", "exact": exact, "pool_seeds": seeds, "steps": hist, "problem": p}),
        );
    } else if st.samples.len() < st.max_samples && hist.len() >= 3 {
        st.sample(json!({"pool_seeds": seeds, "steps": hist, "exact": exact}));
    }
}

fn constants_check(st: &mut Stats) {
    // one / zero / pi / e / tau / from_num
    let r = catch(|| -> Option<String> {
        let checks: Vec<(&str, f64, f64)> = vec![
            ("one", DeepEx::<f64>::one().eval(&[]).ok()?, 1.0),
            ("zero", DeepEx::<f64>::zero().eval(&[]).ok()?, 0.0),
            ("pi", DeepEx::<f64>::pi().eval(&[]).ok()?, std::f64::consts::PI),
            ("e", DeepEx::<f64>::e().eval(&[]).ok()?, std::f64::consts::E),
            ("tau", DeepEx::<f64>::tau().eval(&[]).ok()?, std::f64::consts::TAU),
            ("from_num", FlatEx::<f64>::from_num(2.5).eval(&[]).ok()?, 2.5),
        ];
        for (n, got, want) in checks {
            if got != want {
                return Some(format!("{n}() evaluates to {got}, expected {want}"));
            }
        }
        None
    });
    st.bump("constant_constructor_checks");
    if let Ok(Some(p)) | Err(p) = r.map_err(Some).map(|x| x).map_err(|e| e.unwrap_or_default()) {
        st.violation(format!("constants|{p}"), 1, json!({"kind": "constant-constructors", "problem": p}));
    }
}

pub fn run(ctx: &Ctx) -> i32 {
    let n = ctx.n(60_000, 3_000_000);
    let stats = run_workers(ctx, 10, |w, rng, st| {
        let quota = share(n, w, ctx.threads);
        let mut table = gen_table(rng, &TableCfg::default());
        if w == 0 {
            constants_check(st);
        }
        for i in 0..quota {
            match i % 6 {
                0 | 1 => {
                    if i % 12 < 2 {
                        table = gen_table(rng, &TableCfg::default());
                    }
                    install(&table);
                    by_name_history(rng, &table, st);
                    overloads_follow_the_table(rng, &table, st);
                }
                2 => named_helpers(rng, st),
                3 | 4 => arith_history(rng, st, true),
                _ => arith_history(rng, st, false),
            }
        }
    });
    let mut report = Report::new(
        "(A) histories (1..8 steps) of operate_unary / operate_binary by name over pools of parsed expressions with overlapping and disjoint variables, FlatEx and DeepEx, random tables over the term algebra: after each step the variable list must be the sorted union and the term (mod AC) the operator applied to the operands' reference trees; unknown / wrong-arity operator names must be errors; the 23 named unary helpers of DeepEx. (B) histories of the overloaded + - * / neg, pow and unary functions on DeepEx over exact rationals and f64 with the neutral constants 0, 1, 1-1, 2/2, 0/3 over-represented so that every shortcut fires: value (deep and converted flat) must equal the unsimplified reference exactly (rationals) or within 1e-9 (f64) at every assignment where the unsimplified form is finite and has no power with base zero and non-positive exponent. distinct_nontrivial = distinct histories.",
    )
    .assume("assignments where the unsimplified reference is not finite are counted and not judged (the statement's proviso)")
    .require("by_name_steps", 10000)
    .require("overloads_compared_with_the_table", 2000)
    .require("by_name_histories_on_uncompiled_flat_operands", 500)
    .require("unknown_operator_probes", 500)
    .require("named_helper_applications", 1000)
    .require("points_judged_exact", 5000)
    .require("points_judged_f64", 2000);
    for s in ["adding zero", "multiplying by zero", "multiplying by one", "zero numerator", "unit denominator", "exponent zero", "exponent one", "base zero"] {
        report = report.require(&format!("shortcut: {s}"), 100);
    }
    finish(ctx, stats, report)
}
