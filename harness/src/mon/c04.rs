//! C04 Variables are found, ordered and bound exactly as documented.
use crate::core::{catch, finish, run_workers, share, Ctx, Report, Stats};
use crate::rng::Rng;
use crate::stdtables::{float_table, val_table};
use crate::sym::{install, table_desc, Sym, Table, DX, FX};
use crate::tree::*;
use crate::treecase::{expect, first_mismatch_with, record_tree_violation};
use exmex::prelude::*;
use exmex::{DeepEx, Val};
use serde_json::json;
use std::collections::BTreeMap;

const PATHS: &[&str] = &["flat", "flat_wo", "deep", "flat2deep", "deep2flat"];

pub const ASCII_NAMES: &[&str] = &["x", "Y", "abc", "Zz", "camelCase", "y", "z", "X", "aa", "ab", "B"];
pub const DIGIT_NAMES: &[&str] = &["a1", "_u", "x_9_", "__", "_0", "a10", "a2", "A_1", "z9z"];
pub const GREEK_NAMES: &[&str] = &["α", "ω", "Ωmega", "βeta2", "γ_1", "Α", "λx", "xλ"];
pub const BRACED_NAMES: &[&str] = &[
    " x", " ", "a b", "1abc", "9", "10", "2", "007", "100", "👍", "👍+👎", "sin", "+", "(", "a)b", "a{b", "x,y", "2*3", "{", "é", "x y z", "-x", "3.5", "PI", "a\tb", "x ", "(x)", "mx", "",
];

fn name_pool(rng: &mut Rng, n: usize, table: &Table) -> Vec<String> {
    let mut pool: Vec<String> = vec![];
    let mut tries = 0;
    while pool.len() < n && tries < 1000 {
        tries += 1;
        let cand = match rng.below(10) {
            0..=2 => rng.pick(ASCII_NAMES).to_string(),
            3..=4 => rng.pick(DIGIT_NAMES).to_string(),
            5..=6 => rng.pick(GREEK_NAMES).to_string(),
            7..=8 => rng.pick(BRACED_NAMES).to_string(),
            _ => format!("{}{}", rng.pick(ASCII_NAMES), rng.below(50)),
        };
        // a bare identifier must not collide with an operator of the table (it would be that
        // operator) or start with the name of an alphabetic binary operator
        let collides = is_bare_var_name(&cand) && table.iter().any(|o| o.name == cand || (o.bin.is_some() && o.is_alpha() && cand.starts_with(o.name)));
        if !collides && !pool.contains(&cand) {
            pool.push(cand);
        }
    }
    pool
}

/// evaluation with every slice length 0..n+3 (sampled for large n): (kind, detail) of the first problem
fn arity_problem(text: &str, n: usize, lens: &[usize]) -> Option<String> {
    let r = catch(|| -> Option<String> {
        let f = FX::parse(text).ok()?;
        let fw = FX::parse_wo_compile(text).ok()?;
        let d = DX::parse(text).ok()?;
        let full: Vec<Sym> = (0..n).map(Sym::Var).collect();
        let want = f.eval(&full).ok();
        for &len in lens {
            let vals: Vec<Sym> = (0..len).map(|i| if i < n { Sym::Var(i) } else { Sym::lit("777") }).collect();
            let checks: Vec<(&str, Option<Sym>)> = vec![
                ("FlatEx::eval", f.eval(&vals).ok()),
                ("FlatEx(uncompiled)::eval", fw.eval(&vals).ok()),
                ("DeepEx::eval", d.eval(&vals).ok()),
                ("FlatEx::eval_vec", f.eval_vec(vals.clone()).ok()),
                ("FlatEx::eval_iter", f.eval_iter(vals.clone().into_iter()).ok()),
            ];
            for (name, got) in checks {
                if (len == n) != got.is_some() {
                    return Some(format!("{name} with {len} values for {n} variables returned {}", if got.is_some() { "a value" } else { "an error" }));
                }
                // every evaluation entry point binds the n-th value to the n-th name at every occurrence
                if len == n && name.starts_with("FlatEx::") && got != want {
                    return Some(format!("{name} returned {got:?}, FlatEx::eval returns {want:?}"));
                }
            }
            let relaxed: Vec<(&str, Option<Sym>)> = vec![("FlatEx::eval_relaxed", f.eval_relaxed(&vals).ok()), ("DeepEx::eval_relaxed", d.eval_relaxed(&vals).ok())];
            for (name, got) in relaxed {
                if (len >= n) != got.is_some() {
                    return Some(format!("{name} with {len} values for {n} variables returned {}", if got.is_some() { "a value" } else { "an error" }));
                }
                if len >= n && name.starts_with("Flat") && got != want {
                    return Some(format!("{name} with surplus values differs from eval"));
                }
            }
        }
        None
    });
    match r {
        Ok(p) => p,
        Err(m) => Some(format!("panic: {m}")),
    }
}

fn sorted_union(a: &[String], b: &[String]) -> Vec<String> {
    let mut v: Vec<String> = a.iter().chain(b.iter()).cloned().collect();
    v.sort();
    v.dedup();
    v
}

/// derived expressions over the term algebra: operator application and substitution
fn derived_problem(t1: &Tree, t2: &Tree, table: &Table, rng: &mut Rng) -> Option<String> {
    let text1 = render_plain(t1, table);
    let text2 = render_plain(t2, table);
    let (v1, v2) = (t1.vars(), t2.vars());
    let bins: Vec<&'static str> = table.iter().filter(|o| o.bin.is_some()).map(|o| o.name).collect();
    let op = *rng.pick(&bins);
    // substitution map: every second variable of t1 is replaced by t2
    let replaced: Vec<String> = v1.iter().enumerate().filter(|(i, _)| i % 2 == 0).map(|x| x.1.clone()).collect();
    let untouched: Vec<String> = v1.iter().filter(|v| !replaced.contains(v)).cloned().collect();
    let want_subs = if replaced.is_empty() { v1.clone() } else { sorted_union(&untouched, &v2) };
    let r = catch(|| -> Option<String> {
        for deep in [false, true] {
            let (names_op, names_subs): (Vec<String>, Vec<String>) = if deep {
                let (a, b) = (DX::parse(&text1).ok()?, DX::parse(&text2).ok()?);
                let o = a.clone().operate_binary(b.clone(), op).ok()?;
                let s = a.subs(&mut |v: &str| if replaced.iter().any(|r| r == v) { Some(b.clone()) } else { None }).ok()?;
                (o.var_names().to_vec(), s.var_names().to_vec())
            } else {
                let (a, b) = (FX::parse(&text1).ok()?, FX::parse(&text2).ok()?);
                let o = a.clone().operate_binary(b.clone(), op).ok()?;
                let s = a.subs(&mut |v: &str| if replaced.iter().any(|r| r == v) { Some(b.clone()) } else { None }).ok()?;
                (o.var_names().to_vec(), s.var_names().to_vec())
            };
            let which = if deep { "DeepEx" } else { "FlatEx" };
            if names_op != sorted_union(&v1, &v2) {
                return Some(format!("{which}: ({text1}) {op} ({text2}) lists {names_op:?}, expected the sorted union {:?}", sorted_union(&v1, &v2)));
            }
            if names_subs != want_subs {
                return Some(format!("{which}: ({text1}) with {replaced:?} := ({text2}) lists {names_subs:?}, expected {want_subs:?}"));
            }
        }
        None
    });
    match r {
        Ok(p) => p,
        Err(m) => Some(format!("panic: {m}")),
    }
}

/// overloaded arithmetic on deep expressions with neutral constants that still carry variable
/// names (results of symbolic steps): the result must list the sorted union
fn neutral_with_names_problem(rng: &mut Rng) -> Option<String> {
    let names = ["a", "m", "x", "y", "z", "k"];
    let pick = |rng: &mut Rng| -> String {
        let n = rng.range(1, 3);
        let mut v: Vec<&str> = (0..n).map(|_| *rng.pick(&names)).collect();
        v.sort();
        v.dedup();
        v.join(["+", "*", "-"][rng.below(3)])
    };
    let (t1, t2) = (pick(rng), pick(rng));
    let which = rng.below(9);
    let r = catch(|| -> Option<String> {
        let e = DeepEx::<f64>::parse(&t1).ok()?;
        let carrier = DeepEx::<f64>::parse(&t2).ok()?;
        // zero and one that carry the variable names of `carrier`
        let zero = (carrier.clone() * DeepEx::<f64>::zero()).ok()?;
        let one = carrier.clone().pow(DeepEx::<f64>::zero()).ok()?;
        let want = sorted_union(e.var_names(), carrier.var_names());
        let (what, res) = match which {
            0 => ("e + zero", e + zero),
            1 => ("zero + e", zero + e),
            2 => ("e * one", e * one),
            3 => ("one * e", one * e),
            4 => ("e / one", e / one),
            6 => ("e * zero", e * zero),
            7 => ("zero * e", zero * e),
            8 => ("zero / e", zero / e),
            _ => ("e.pow(one)", e.pow(one)),
        };
        let res = res.ok()?;
        if res.var_names() != want.as_slice() {
            return Some(format!("{what} with e = {t1}, neutral element carrying the variables of {t2}: result lists {:?}, expected the sorted union {want:?}", res.var_names()));
        }
        let vals: Vec<f64> = (0..want.len()).map(|i| 0.7 + i as f64).collect();
        // a result that is constant in value still has its variables: too few values are an error
        if !want.is_empty() {
            let few = &vals[..want.len() - 1];
            if res.eval(few).is_ok() || res.eval_relaxed(few).is_ok() {
                return Some(format!("{what} with e = {t1} (neutral element from {t2}): deep result accepts {} values for {} variables", few.len(), want.len()));
            }
            let f = FlatEx::<f64>::from_deepex(res.clone()).ok()?;
            if f.eval(few).is_ok() || f.eval_relaxed(few).is_ok() || f.eval_vec(few.to_vec()).is_ok() {
                return Some(format!("{what} with e = {t1} (neutral element from {t2}): flat result accepts {} values for {} variables", few.len(), want.len()));
            }
            let mut more = vals.clone();
            more.push(9.0);
            if f.eval_relaxed(&more).is_err() || res.eval_relaxed(&more).is_err() || f.eval(&more).is_ok() {
                return Some(format!("{what} with e = {t1} (neutral element from {t2}): wrong Ok/Err with one surplus value"));
            }
        }
        if res.eval(&vals).is_err() {
            return Some(format!("{what} with e = {t1} (neutral element from {t2}) does not evaluate with the union's number of values"));
        }
        let f = FlatEx::<f64>::from_deepex(res).ok()?;
        if f.var_names() != want.as_slice() {
            return Some(format!("{what}: the flat form lists {:?}, expected {want:?}", f.var_names()));
        }
        None
    });
    match r {
        Ok(p) => p,
        Err(m) => Some(format!("panic: {m}")),
    }
}

/// shipped tables: f64 (incl. derivative) and Val
fn shipped_problem(rng: &mut Rng, st: &mut Stats) -> Option<(String, String)> {
    let use_val = rng.chance(1, 2);
    let full = if use_val { val_table() } else { float_table() };
    let table: Table = full.into_iter().filter(|o| ["+", "-", "*", "/", "sin", "cos", "exp"].contains(&o.name)).collect();
    let n = rng.range(0, 22);
    let names = name_pool(rng, n.max(1), &float_table());
    let gcfg = GenCfg { lit_num: if n == 0 { 10 } else { 2 }, const_num: 0, un_num: 1, chain_num: 5, vars: names };
    let size = rng.range(1, 40);
    let tree = gen_tree(rng, &table, size, &gcfg);
    let cfg = RenderCfg { brace: rng.below(4), space: rng.below(3), ..RenderCfg::plain() };
    let text = render(&tree, &table, rng, &cfg);
    let want = tree.vars();
    let nv = want.len();
    st.bump("shipped_table_texts");
    st.class(("shipped", use_val, nv, tree.n_leaves()));
    let r = catch(|| -> Option<String> {
        if use_val {
            let e = match exmex::parse_val::<i32, f64>(&text) {
                Ok(e) => e,
                Err(e) => return Some(format!("parse_val rejected a well-formed text: {}", e.msg())),
            };
            if e.var_names() != want.as_slice() {
                return Some(format!("parse_val lists {:?}, expected {want:?}", e.var_names()));
            }
            for len in [0, nv.saturating_sub(1), nv, nv + 1, nv + 3] {
                let vals: Vec<Val<i32, f64>> = (0..len).map(|i| Val::Float(1.0 + i as f64)).collect();
                if (len == nv) != e.eval(&vals).is_ok() {
                    return Some(format!("FlatExVal::eval with {len} values for {nv} variables: wrong Ok/Err"));
                }
                if (len >= nv) != e.eval_relaxed(&vals).is_ok() {
                    return Some(format!("FlatExVal::eval_relaxed with {len} values for {nv} variables: wrong Ok/Err"));
                }
            }
            None
        } else {
            let e = match FlatEx::<f64>::parse(&text) {
                Ok(e) => e,
                Err(e) => return Some(format!("FlatEx::<f64>::parse rejected a well-formed text: {}", e.msg())),
            };
            if e.var_names() != want.as_slice() {
                return Some(format!("FlatEx::<f64> lists {:?}, expected {want:?}", e.var_names()));
            }
            let d = DeepEx::<f64>::parse(&text).ok()?;
            if d.var_names() != want.as_slice() {
                return Some(format!("DeepEx::<f64> lists {:?}, expected {want:?}", d.var_names()));
            }
            for i in 0..nv.min(3) {
                let idx = (i * 7) % nv;
                let p = e.clone().partial(idx).ok()?;
                if p.var_names() != want.as_slice() {
                    return Some(format!("derivative w.r.t. {} lists {:?}, antiderivative {want:?}", want[idx], p.var_names()));
                }
                let pd = d.clone().partial(idx).ok()?;
                if pd.var_names() != want.as_slice() {
                    return Some(format!("deep derivative w.r.t. {} lists {:?}, antiderivative {want:?}", want[idx], pd.var_names()));
                }
                let vals: Vec<f64> = (0..nv).map(|k| 0.5 + k as f64 * 0.1).collect();
                if p.eval(&vals).is_err() || p.eval(&vals[..nv - 1]).is_ok() {
                    return Some("derivative does not evaluate with exactly the antiderivative's slice".into());
                }
                // whatever is derived from a derivative still lists the antiderivative's variables
                let pd2 = p.clone().to_deepex().ok()?;
                if pd2.var_names() != want.as_slice() || pd2.eval(&vals).is_err() {
                    return Some(format!("derivative w.r.t. {} converted to a deep expression lists {:?} (or does not evaluate), antiderivative {want:?}", want[idx], pd2.var_names()));
                }
                let ps = p.clone().operate_unary("sin").ok()?;
                if ps.var_names() != want.as_slice() || ps.eval(&vals).is_err() {
                    return Some(format!("sin applied to the derivative w.r.t. {} lists {:?} (or does not evaluate), antiderivative {want:?}", want[idx], ps.var_names()));
                }
                let p2 = p.clone().partial(nv - 1);
                match p2 {
                    Ok(p2) if p2.var_names() == want.as_slice() => {}
                    Ok(p2) => return Some(format!("second derivative lists {:?}, antiderivative {want:?}", p2.var_names())),
                    Err(e) => return Some(format!("second derivative w.r.t. the last variable of {want:?} fails: {}", e.msg())),
                }
                // also when the derivative collapsed to a constant: relaxed evaluation rejects too few values
                if p.eval_relaxed(&vals[..nv - 1]).is_ok() || pd.eval_relaxed(&vals[..nv - 1]).is_ok() || p.eval_relaxed(&vals).is_err() || pd.eval(&vals[..nv - 1]).is_ok() {
                    return Some(format!("derivative w.r.t. {}: relaxed evaluation with {} values for {nv} variables has the wrong Ok/Err", want[idx], nv - 1));
                }
            }
            None
        }
    });
    let p = match r {
        Ok(p) => p,
        Err(m) => Some(format!("panic: {m}")),
    };
    p.map(|p| (text, p))
}

/// more distinct variables than fit into a byte-sized index: n distinct names (unpadded
/// decimal suffixes, so text order, numeric order and string order all differ) in shuffled order,
/// a few of them repeated, on one long chain
fn many_variables_case(rng: &mut Rng, table: &Table, st: &mut Stats) {
    let n = match rng.below(6) {
        0 => 256,
        1 => 257,
        2 => rng.range(65, 130),
        _ => rng.range(250, 520),
    };
    let mut names: Vec<String> = (0..n).map(|k| format!("u{k}")).collect();
    for i in (1..n).rev() {
        names.swap(i, rng.below(i + 1));
    }
    let repeats = rng.range(0, 12);
    for _ in 0..repeats {
        let nm = names[rng.below(n)].clone();
        let at = rng.below(names.len() + 1);
        names.insert(at, nm);
    }
    let bins: Vec<usize> = (0..table.len()).filter(|i| table[*i].bin.is_some()).collect();
    let k = rng.range(1, bins.len().min(3));
    let chosen: Vec<usize> = (0..k).map(|_| *rng.pick(&bins)).collect();
    let operands: Vec<Tree> = names.iter().map(|nm| Tree::var(nm)).collect();
    let ops: Vec<usize> = (0..operands.len() - 1).map(|_| *rng.pick(&chosen)).collect();
    let tree = tree_from_chain(&operands, &ops, table);
    let text = render_plain(&tree, table);
    let ex = expect(&tree, table);
    st.bump("cases");
    st.bump("texts_with_65_to_520_variables");
    if ex.vars.len() > 256 {
        st.bump("texts_gt256_variables");
    }
    st.max("max_distinct_variables", ex.vars.len() as u64);
    const MANY_PATHS: &[&str] = &["flat", "flat_wo", "flat_vec", "flat_iter", "deep", "deep2flat"];
    if let Some((path, m)) = first_mismatch_with(&ex, &text, MANY_PATHS) {
        let what = m.describe();
        st.violation(
            format!("many-variables|{path}|{}|n={}", m.kind(), ex.vars.len()),
            ex.vars.len(),
            json!({"kind": "many-variables", "path": path, "variables": ex.vars.len(), "text_begin": text.chars().take(200).collect::<String>(), "table": table_desc(table), "mismatch": what.chars().take(600).collect::<String>()}),
        );
    }
}

pub fn run(ctx: &Ctx) -> i32 {
    let n = ctx.n(60_000, 3_000_000);
    let stats = run_workers(ctx, 4, |w, rng, st| {
        let quota = share(n, w, ctx.threads);
        let mut table = gen_table(rng, &TableCfg::default());
        let mut families: BTreeMap<&str, u64> = BTreeMap::new();
        for i in 0..quota {
            if i % 16 == 0 {
                table = gen_table(rng, &TableCfg::default());
                install(&table);
            }
            let nvars = match rng.below(10) {
                0 => 0,
                1..=5 => rng.range(1, 6),
                6..=7 => rng.range(7, 16),
                _ => rng.range(17, 40),
            };
            let names = name_pool(rng, nvars.max(1), &table);
            for nm in &names {
                let fam = if !is_bare_var_name(nm) { "braced_only" } else if nm.chars().any(|c| !c.is_ascii()) { "greek" } else if nm.chars().any(|c| c.is_ascii_digit() || c == '_') { "digits_underscore" } else { "ascii" };
                *families.entry(fam).or_default() += 1;
            }
            let gcfg = GenCfg { lit_num: if nvars == 0 { 10 } else { rng.below(4) }, un_num: rng.below(3), chain_num: rng.below(8), vars: names, ..GenCfg::default() };
            let size = rng.range(1, 3 * nvars.max(2));
            let tree = gen_tree(rng, &table, size.min(110), &gcfg);
            let cfg = RenderCfg { brace: rng.below(5), space: rng.below(3), extra_paren: rng.below(3), juxta: rng.below(3), ..RenderCfg::plain() };
            let text = render(&tree, &table, rng, &cfg);
            let ex = expect(&tree, &table);
            let nv = ex.vars.len();
            st.bump("cases");
            st.class((nv, tree.shape_key(&table)));
            st.max("max_distinct_variables", nv as u64);
            if nv > 16 {
                st.bump("texts_gt16_variables");
            }
            if nv == 0 {
                st.bump("texts_without_variables");
            }
            if let Some((path, m)) = first_mismatch_with(&ex, &text, PATHS) {
                let t2 = table.clone();
                let rr = move |t: &Tree, _: &Table| render_plain(t, &t2);
                record_tree_violation(st, &tree, &table, &text, path, &m, PATHS, Some(&rr));
                continue;
            }
            // arity
            let lens: Vec<usize> = if nv <= 6 { (0..=nv + 3).collect() } else { vec![0, 1, nv / 2, nv - 1, nv, nv + 1, nv + 3] };
            st.add("arity_probes", lens.len() as u64 * 7);
            if let Some(p) = arity_problem(&text, nv, &lens) {
                st.violation(format!("arity|{}|{}", p, text.len().min(40)), text.len(), json!({"kind": "arity", "text": text, "table": table_desc(&table), "variables": ex.vars, "problem": p}));
            }
            // derived expressions
            if i % 4 == 0 {
                let k2 = rng.range(1, 8);
                let names2 = name_pool(rng, k2, &table);
                let mut g2 = gcfg.clone();
                g2.vars.truncate(3);
                g2.vars.extend(names2);
                let size2 = rng.range(1, 8);
                let t2 = gen_tree(rng, &table, size2, &g2);
                st.bump("derived_expression_checks");
                if let Some(p) = derived_problem(&tree, &t2, &table, rng) {
                    st.violation(format!("derived|{}", p.chars().take(60).collect::<String>()), p.len(), json!({"kind": "derived-variables", "table": table_desc(&table), "problem": p}));
                }
            }
            if i % 8 == 4 {
                st.bump("neutral_elements_with_names_checks");
                if let Some(p) = neutral_with_names_problem(rng) {
                    st.violation(format!("neutral|{}", p.chars().take(70).collect::<String>()), p.len(), json!({"kind": "derived-variables-neutral-element", "problem": p}));
                }
            }
            if i % 128 == 77 {
                many_variables_case(rng, &table, st);
            }
            if i % 8 == 0 {
                if let Some((text, p)) = shipped_problem(rng, st) {
                    st.violation(format!("shipped|{}", p.chars().take(60).collect::<String>()), text.len(), json!({"kind": "shipped-table-variables", "text": text, "problem": p}));
                }
            }
            if st.samples.len() < st.max_samples && nv >= 3 && nv <= 5 && text.len() < 80 {
                st.sample(json!({"text": text, "expected_var_names": ex.vars}));
            }
        }
        for (k, v) in families {
            st.add(&format!("names_{k}"), v);
        }
    });
    let report = Report::new(
        "texts with 0..40 distinct variables (and long chains with 65..520 distinct variables in shuffled order, some repeated) drawn from name families (ASCII mixed case, digits/underscores, Greek, arbitrary braced text incl. spaces, leading/trailing spaces, digits first, emoji, operator look-alikes {sin} {+} {(} {PI}, empty name), bare and braced spelling of the same variable mixed, repeated occurrences; random tables over the term algebra. Oracle: var_names == sorted distinct names (Rust str order) and Var(i) bound at every occurrence of the i-th name on flat/uncompiled/deep/converted forms; every slice length 0..n+3 on eval / eval_relaxed / eval_vec / eval_iter (Err iff wrong; relaxed ignores surplus); derived expressions (operate_binary, subs) list the sorted union; on the shipped float table a derivative lists exactly the antiderivative's variables; the value-typed parser obeys the same rules. distinct_nontrivial = distinct (number of variables, tree shape) classes.",
    )
    .require("texts_gt16_variables", 500)
    .require("texts_without_variables", 100)
    .require("texts_gt256_variables", 50)
    .require("names_braced_only", 1000)
    .require("names_greek", 1000)
    .require("arity_probes", 10000)
    .require("derived_expression_checks", 1000)
    .require("neutral_elements_with_names_checks", 1000)
    .require("shipped_table_texts", 1000);
    finish(ctx, stats, report)
}
