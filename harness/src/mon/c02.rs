//! C02 Constant folding never changes what an expression computes.
use crate::core::{catch, finish, run_workers, share, Ctx, Report, Stats};
use crate::rng::Rng;
use crate::soup::{gen_semi_soup, gen_soup, shrink_tokens, soup_alphabet};
use crate::sym::{applied, install, intern, table_desc, BinSpec, OpSpec, Sym, Table, DX, FX};
use crate::sympaths::{run_path, Fail, R};
use crate::tree::*;
use crate::treecase::{expect, first_mismatch_with, record_tree_violation};
use exmex::Express;
use serde_json::json;

const PATHS: &[&str] = &["flat", "flat_wo", "flat_recompiled", "wo_compiled_twice", "wo_eval_compile_eval", "deep", "wo2deep"];

/// counts operator applications that happen while parsing (= folding events)
fn fold_events(text: &str, st: &mut Stats) {
    let b = applied();
    let _ = catch(|| FX::parse(text).map(|_| ()));
    let flat_folds = applied() - b;
    let b = applied();
    let _ = catch(|| DX::parse(text).map(|_| ()));
    let deep_folds = applied() - b;
    let b = applied();
    let _ = catch(|| FX::parse_wo_compile(text).map(|_| ()));
    let wo_folds = applied() - b;
    st.add("fold_events_flat", flat_folds);
    st.add("fold_events_deep", deep_folds);
    if flat_folds > 0 {
        st.bump("cases_with_flat_folding");
    }
    if deep_folds > flat_folds {
        st.bump("cases_deep_folds_more_than_flat");
    }
    if wo_folds > 0 {
        st.bump("unexpected_folding_without_compile");
    }
}

fn enumerate_chains(ctx: &Ctx, w: usize, st: &mut Stats) {
    // 3 operators a b c, priorities in {0,1,2}, every flag combination; chains of <= 4 (quick)
    // or <= 5 (thorough) operands, every literal/variable pattern. Work is split by table index.
    let names = ["+", "%", "mx"];
    let max_n = if ctx.is_quick() { 4 } else { 5 };
    let mut table_idx = 0;
    for prios in 0..27usize {
        for flags in 0..8usize {
            table_idx += 1;
            if table_idx % ctx.threads != w {
                continue;
            }
            let table: Table = (0..3)
                .map(|k| OpSpec {
                    name: intern(names[k]),
                    bin: Some(BinSpec { slot: k as u8, prio: ((prios / 3usize.pow(k as u32)) % 3) as i64, comm: flags >> k & 1 == 1 }),
                    un: None,
                    constant: None,
                })
                .collect();
            install(&table);
            st.bump("enum_tables");
            for n in 2..=max_n {
                for opsel in 0..3usize.pow(n as u32 - 1) {
                    let ops: Vec<usize> = (0..n - 1).map(|k| (opsel / 3usize.pow(k as u32)) % 3).collect();
                    for pattern in 0..(1usize << n) {
                        let operands: Vec<Tree> = (0..n)
                            .map(|k| if pattern >> k & 1 == 1 { Tree::lit(["2", "3", "5", "7", "9"][k]) } else { Tree::var(["a", "b", "c", "d", "e"][k]) })
                            .collect();
                        let tree = tree_from_chain(&operands, &ops, &table);
                        let mut text = String::new();
                        for k in 0..n {
                            if k > 0 {
                                text.push_str(&format!(" {} ", names[ops[k - 1]]));
                            }
                            match &operands[k] {
                                Tree::Lit(s) | Tree::Var(s) => text.push_str(s),
                                _ => unreachable!(),
                            }
                        }
                        st.bump("cases");
                        st.bump("enum_cases");
                        st.class(("enum", prios, flags, n, opsel, pattern));
                        let ex = expect(&tree, &table);
                        if let Some((path, m)) = first_mismatch_with(&ex, &text, PATHS) {
                            record_tree_violation(st, &tree, &table, &text, path, &m, PATHS, None);
                        }
                    }
                }
            }
        }
    }
}

fn same(a: &R, b: &R, comm: &[bool; 64]) -> bool {
    match (a, b) {
        (Ok(x), Ok(y)) => x.vars == y.vars && ac_norm(&x.val, comm) == ac_norm(&y.val, comm),
        (Err(Fail::Parse(_)), Err(Fail::Parse(_))) => true,
        (Err(Fail::Eval(_)), Err(Fail::Eval(_))) => true,
        _ => false,
    }
}

/// differential on arbitrary strings: folded vs unfolded (vs re-folded) must accept the same
/// strings and denote the same function
fn soup_case(toks: &[String], table: &Table, st: &mut Stats) {
    let text = toks.concat();
    let comm = comm_slots(table);
    st.bump("cases");
    st.bump("soup_cases");
    let base = run_path("flat_wo", &text);
    if base.is_ok() {
        st.bump("soup_accepted");
        st.class(("soup", text.len(), toks.len(), base.as_ref().map(|o| o.val.size()).unwrap_or(0)));
    }
    for p in ["flat", "wo_compiled_twice"] {
        let r = run_path(p, &text);
        if !same(&base, &r, &comm) || matches!(r, Err(Fail::Panic(_))) {
            if st.violations.len() >= 6 {
                st.bump("violations_raw");
                continue;
            }
            let mut pred = |t: &str| {
                let b = run_path("flat_wo", t);
                let r = run_path(p, t);
                !same(&b, &r, &comm) || matches!(r, Err(Fail::Panic(_)))
            };
            let small = shrink_tokens(toks, &mut pred, 300).concat();
            let b = run_path("flat_wo", &small);
            let r = run_path(p, &small);
            st.violation(
                format!("soup|{p}|{small}|{}", table_desc(table)),
                small.len() + 1000,
                json!({"kind": "soup-differential", "text": small, "table": table_desc(table), "unfolded": format!("{b:?}"), "other_path": p, "other": format!("{r:?}"), "original_text": text}),
            );
        }
    }
}

pub fn run(ctx: &Ctx) -> i32 {
    let n_tree = ctx.n(160_000, 8_000_000);
    let n_soup = ctx.n(240_000, 8_000_000);
    let stats = run_workers(ctx, 2, |w, rng, st| {
        enumerate_chains(ctx, w, st);
        // literal-heavy random trees
        let quota = share(n_tree, w, ctx.threads);
        let mut table = gen_table(rng, &TableCfg::default());
        for i in 0..quota {
            if i % 16 == 0 {
                let pr = if rng.chance(1, 2) { 3 } else { 100 };
                table = gen_table(rng, &TableCfg { prio_range: pr, ..TableCfg::default() });
                install(&table);
            }
            let gcfg = GenCfg { lit_num: rng.range(5, 9), un_num: rng.below(3), const_num: 2, chain_num: rng.below(9), ..GenCfg::default() };
            let size = match rng.below(10) {
                0..=6 => rng.range(2, 10),
                7..=8 => rng.range(11, 40),
                _ => rng.range(41, 100),
            };
            let tree = if rng.chance(1, 10) {
                st.bump("trees_long_single_level_chain");
                let n = rng.range(15, 90);
                gen_chain_tree(rng, &table, n, &gcfg)
            } else {
                gen_tree(rng, &table, size, &gcfg)
            };
            let rcfg = if rng.chance(1, 2) { RenderCfg::plain() } else { RenderCfg::random(rng) };
            let text = render(&tree, &table, rng, &rcfg);
            st.bump("cases");
            st.bump("tree_cases");
            st.class(tree.shape_key(&table));
            if i % 8 == 0 {
                fold_events(&text, st);
            }
            if st.samples.len() < st.max_samples && size > 3 && size < 8 {
                st.sample(json!({"text": text, "table": table_desc(&table)}));
            }
            let ex = expect(&tree, &table);
            if let Some((path, m)) = first_mismatch_with(&ex, &text, PATHS) {
                record_tree_violation(st, &tree, &table, &text, path, &m, PATHS, None);
            }
        }
        // soup differential
        let quota = share(n_soup, w, ctx.threads);
        let mut alphabet = soup_alphabet(&table);
        for i in 0..quota {
            if i % 32 == 0 {
                let pr = if rng.chance(1, 2) { 3 } else { 100 };
                table = gen_table(rng, &TableCfg { prio_range: pr, max_bin: 6, ..TableCfg::default() });
                install(&table);
                alphabet = soup_alphabet(&table);
            }
            let toks = if rng.chance(1, 2) { gen_soup(rng, &alphabet, 14) } else { gen_semi_soup(rng, &table, 10) };
            soup_case(&toks, &table, st);
        }
    });
    let _ = Sym::Hole;
    let _: Option<Rng> = None;
    let mut report = Report::new(
        "three workloads: (1) exhaustive: every parenthesis-free chain of 2..4 (thorough: ..5) operands over 3 binary operators x every literal/variable pattern x every assignment of priorities {0,1,2} and commutativity flags (216 tables); (2) literal-heavy random trees (50-90 % literals, 2..100 operands) over random tables; (3) token soup and near-well-formed soup, folded vs unfolded vs re-folded differential. Paths judged: parse, parse_wo_compile, parse+compile, parse_wo_compile+compile+compile, DeepEx::parse, parse_wo_compile->to_deepex. Oracle: AC-normal-form equality with the reference tree (soup: with the unfolded expression, plus equal acceptance). distinct_nontrivial = enumerated cases + distinct tree-shape/priority/flag classes + distinct accepted-soup classes.",
    )
    .assume("commutative flag is interpreted as associative-commutative, as the quantifier restricts it")
    .require("enum_cases", 1000)
    .require("cases_with_flat_folding", 100)
    .require("fold_events_deep", 100)
    .require("soup_accepted", 1000);
    report.extra = json!({"exhaustive_subspace": "chains of <=4 (quick) / <=5 (thorough) operands over 3 operators, all priority/flag tables, all literal patterns"});
    finish(ctx, stats, report)
}
