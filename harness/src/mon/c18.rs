//! C18 Derivatives of value-typed and piecewise expressions.
use crate::core::{catch, finish, run_workers, share, Ctx, Report, Stats};
use crate::diffutil::close;
use crate::num::{Dual, Real};
use crate::rng::Rng;
use crate::stdtables::val_table;
use crate::sym::Table;
use crate::tree::*;
use exmex::prelude::*;
use exmex::Val;
use serde_json::json;

/// typed dual value following the documented typing rules of the value type
#[derive(Clone, Debug)]
enum TV {
    I(i64),
    F(Dual<f64>),
    B(bool),
    None,
    /// an error value (overflow, kinds, ...): the case is not judged
    Err,
    /// too close to a singularity or a branch boundary: the point is not judged
    Unsafe,
}

const MARGIN: f64 = 0.05;
const FUNS: &[&str] = &["sin", "cos", "tan", "exp", "ln", "sqrt", "tanh", "atan", "sinh", "cosh", "log2", "log10", "log", "asin", "acos", "asinh", "acosh", "atanh"];

struct Ev<'a> {
    table: &'a Table,
    vars: &'a [String],
    vals: &'a [Dual<f64>],
    maxmag: f64,
    cond_true: u32,
    cond_false: u32,
    known_class: bool,
}

impl Ev<'_> {
    fn num(&mut self, d: Dual<f64>) -> TV {
        if !d.v.is_finite() || !d.d.is_finite() {
            return TV::Unsafe;
        }
        self.maxmag = self.maxmag.max(d.v.abs()).max(d.d.abs());
        TV::F(d)
    }
    fn eval(&mut self, t: &Tree) -> TV {
        let r = match t {
            Tree::Lit(s) => {
                if s.contains('.') {
                    TV::F(Dual::c(s.parse().unwrap()))
                } else {
                    TV::I(s.parse().unwrap())
                }
            }
            Tree::Const(_) => TV::Err,
            Tree::Var(n) => TV::F(self.vals[self.vars.iter().position(|v| v == n).unwrap()].clone()),
            Tree::Un(o, a) => {
                let a = self.eval(a);
                let name = self.table[*o].name;
                match (name, a) {
                    (_, TV::Unsafe) => TV::Unsafe,
                    ("+", x) => x,
                    ("-", TV::I(x)) => x.checked_neg().filter(|v| *v >= i32::MIN as i64 && *v <= i32::MAX as i64).map(TV::I).unwrap_or(TV::Err),
                    ("-", TV::F(x)) => TV::F(x.neg()),
                    (f, TV::F(x)) if FUNS.contains(&f) => {
                        let v = x.v;
                        let ok = match f {
                            "sqrt" | "ln" | "log" | "log2" | "log10" => v > MARGIN,
                            "tan" => v.cos().abs() > MARGIN,
                            "asin" | "acos" | "atanh" => v.abs() < 1.0 - MARGIN,
                            "acosh" => v > 1.0 + MARGIN,
                            _ => true,
                        };
                        if ok {
                            self.num(x.un(f))
                        } else {
                            TV::Unsafe
                        }
                    }
                    _ => TV::Err,
                }
            }
            Tree::Bin(o, a, b) => {
                let name = self.table[*o].name;
                let a = self.eval(a);
                if name == "else" {
                    // the right side is evaluated as well (both are evaluated by exmex), but only
                    // its safety matters if it is selected
                    return match a {
                        TV::Unsafe => TV::Unsafe,
                        TV::None => self.eval(b),
                        x => x,
                    };
                }
                let b = self.eval(b);
                if matches!(a, TV::Unsafe) || matches!(b, TV::Unsafe) {
                    return TV::Unsafe;
                }
                let in_i32 = |v: Option<i64>| v.filter(|v| *v >= i32::MIN as i64 && *v <= i32::MAX as i64).map(TV::I).unwrap_or(TV::Err);
                let fl = |x: &TV| match x {
                    TV::I(i) => Some(Dual::c(*i as f64)),
                    TV::F(d) => Some(d.clone()),
                    _ => None,
                };
                match name {
                    "if" => match (a, b) {
                        (v, TV::B(c)) => {
                            if c {
                                self.cond_true += 1;
                                v
                            } else {
                                self.cond_false += 1;
                                TV::None
                            }
                        }
                        _ => TV::Err,
                    },
                    "+" | "-" | "*" | "/" => match (&a, &b) {
                        (TV::I(x), TV::I(y)) => match name {
                            "+" => in_i32(x.checked_add(*y)),
                            "-" => in_i32(x.checked_sub(*y)),
                            "*" => in_i32(x.checked_mul(*y)),
                            _ => {
                                if *y == 0 {
                                    TV::Err
                                } else if y.checked_mul(*y).map(|q| q > i32::MAX as i64).unwrap_or(true) {
                                    // K1 run-time variant also for an integer numerator: the
                                    // quotient rule squares the divisor
                                    self.known_class = true;
                                    TV::Unsafe
                                } else {
                                    in_i32(x.checked_div(*y))
                                }
                            }
                        },
                        _ => match (fl(&a), fl(&b)) {
                            (Some(x), Some(y)) => match name {
                                "+" => self.num(x.add(&y)),
                                "-" => self.num(x.sub(&y)),
                                "*" => self.num(x.mul(&y)),
                                _ => {
                                    if matches!(b, TV::I(0)) {
                                        TV::Err
                                    } else if matches!(b, TV::I(g) if g.checked_mul(g).map(|q| q > i32::MAX as i64).unwrap_or(true)) {
                                        // known finding K1 (run-time variant): the quotient rule squares the
                                        // divisor; an integer divisor of 46341 or more overflows i32 there
                                        self.known_class = true;
                                        TV::Unsafe
                                    } else if y.v.abs() > MARGIN {
                                        self.num(x.div(&y))
                                    } else {
                                        TV::Unsafe
                                    }
                                }
                            },
                            _ => TV::Err,
                        },
                    },
                    "^" => match (&a, &b) {
                        (TV::I(x), TV::I(y)) => {
                            if *y < 0 || *y > 64 {
                                TV::Err
                            } else {
                                in_i32(x.checked_pow(*y as u32))
                            }
                        }
                        (TV::F(x), TV::I(y)) => {
                            if *y <= 0 && x.v.abs() < MARGIN {
                                TV::Unsafe
                            } else {
                                self.num(x.powf(&Dual::c(*y as f64)))
                            }
                        }
                        (TV::F(x), TV::F(y)) => {
                            if x.v > MARGIN {
                                self.num(x.powf(y))
                            } else {
                                TV::Unsafe
                            }
                        }
                        _ => TV::Err,
                    },
                    "<" | "<=" | ">" | ">=" | "==" | "!=" => match (fl(&a), fl(&b)) {
                        (Some(x), Some(y)) => {
                            if (x.v - y.v).abs() < MARGIN {
                                TV::Unsafe
                            } else {
                                TV::B(match name {
                                    "<" => x.v < y.v,
                                    "<=" => x.v <= y.v,
                                    ">" => x.v > y.v,
                                    ">=" => x.v >= y.v,
                                    "==" => x.v == y.v,
                                    _ => x.v != y.v,
                                })
                            }
                        }
                        _ => TV::Err,
                    },
                    _ => TV::Err,
                }
            }
        };
        r
    }
}

fn arith(rng: &mut Rng, table: &Table, depth: usize) -> Tree {
    let idx = |n: &str| table.iter().position(|o| o.name == n).unwrap();
    if depth == 0 || rng.chance(1, 4) {
        return match rng.below(10) {
            0..=4 => Tree::var(["x", "y"][rng.below(2)]),
            5..=6 => Tree::lit(["1", "2", "3", "4"][rng.below(4)]),
            _ => Tree::lit(["0.5", "2.0", "1.5", "3.0", "0.25"][rng.below(5)]),
        };
    }
    match rng.below(10) {
        0..=1 => Tree::un(idx(FUNS[rng.below(8)]), arith(rng, table, depth - 1)),
        2 => Tree::un(idx("-"), arith(rng, table, depth - 1)),
        _ => {
            let op = ["+", "-", "*", "/", "^", "+", "*"][rng.below(7)];
            let l = arith(rng, table, depth - 1);
            let r = if op == "^" && rng.chance(2, 3) { Tree::lit(["2", "3", "2.0", "0.5"][rng.below(4)]) } else { arith(rng, table, depth - 1) };
            Tree::bin(idx(op), l, r)
        }
    }
}

fn piece(rng: &mut Rng, table: &Table, nest: usize) -> Tree {
    let idx = |n: &str| table.iter().position(|o| o.name == n).unwrap();
    if nest == 0 {
        return arith(rng, table, 2);
    }
    let f = if rng.chance(1, 4) { piece(rng, table, nest - 1) } else { arith(rng, table, 2) };
    let g = if rng.chance(1, 3) { piece(rng, table, nest - 1) } else { arith(rng, table, 2) };
    let cmp = ["<", "<=", ">", ">=", "<", ">", "!=", "=="][rng.below(8)];
    // the property quantifies over comparison conditions *on the variables*
    let mut cl = arith(rng, table, 1);
    while !cl.has_var() {
        cl = arith(rng, table, 1);
    }
    let cr = if rng.chance(1, 2) { Tree::lit(["0.5", "1", "1.5", "2", "0"][rng.below(5)]) } else { arith(rng, table, 1) };
    let cond = Tree::bin(idx(cmp), cl, cr);
    let mut t = Tree::bin(idx("else"), Tree::bin(idx("if"), f, cond), g);
    // arithmetic around the piecewise part
    if rng.chance(1, 2) {
        let op = ["+", "*", "-", "/"][rng.below(4)];
        let other = arith(rng, table, 1);
        t = if rng.chance(1, 2) { Tree::bin(idx(op), t, other) } else { Tree::bin(idx(op), other, t) };
    }
    if rng.chance(1, 6) {
        t = Tree::un(idx(FUNS[rng.below(4)]), t);
    }
    t
}

/// K1 (known finding): a quotient whose divisor is an integer-typed constant while the numerator
/// depends on a variable; the derivative's constants are folded with integer division.
fn in_known_class(t: &Tree, table: &Table) -> bool {
    fn int_const(t: &Tree, table: &Table) -> bool {
        match t {
            Tree::Lit(s) => !s.contains('.'),
            Tree::Un(o, a) => matches!(table[*o].name, "+" | "-") && int_const(a, table),
            Tree::Bin(o, a, b) => matches!(table[*o].name, "+" | "-" | "*" | "/" | "^") && int_const(a, table) && int_const(b, table),
            _ => false,
        }
    }
    match t {
        Tree::Un(_, a) => in_known_class(a, table),
        Tree::Bin(o, a, b) => (table[*o].name == "/" && int_const(b, table) && a.has_var()) || in_known_class(a, table) || in_known_class(b, table),
        _ => false,
    }
}

const KNOWN_WITNESSES: &[(&str, usize, f64, f64)] = &[
    ("x/2", 0, 1.5, 0.5),
    ("(2*x)/3", 0, 1.5, 2.0 / 3.0),
    ("x/(1+2)", 0, 1.5, 1.0 / 3.0),
    ("(x+1)/2", 0, 1.5, 0.5),
    // run-time variant: the integer divisor is selected by a condition, the quotient rule squares it
    ("x/(65536 if x>0 else 2.0)", 0, 1.5, 1.0 / 65536.0),
];

fn to_f(v: &Val<i32, f64>) -> Option<f64> {
    match v {
        Val::Float(f) => Some(*f),
        Val::Int(i) => Some(*i as f64),
        _ => None,
    }
}

/// a branch that is a long parenthesis-free chain (18..40 operands on the nesting level of the
/// `if`): the rules are applied in priority order also when one level of a directly parsed deep
/// expression carries dozens of operators
fn long_branch(rng: &mut Rng, table: &Table) -> Tree {
    let idx = |n: &str| table.iter().position(|o| o.name == n).unwrap();
    let n = rng.range(18, 40);
    let operands: Vec<Tree> = (0..n)
        .map(|_| match rng.below(6) {
            0 => Tree::lit(["0.5", "2.0", "1.5", "3.0"][rng.below(4)]),
            1 => Tree::lit(["2", "3", "5", "7"][rng.below(4)]),
            _ => Tree::var(["x", "y"][rng.below(2)]),
        })
        .collect();
    let ops: Vec<usize> = (0..n - 1).map(|_| idx(["-", "-", "*", "+", "-", "*", "/"][rng.below(7)])).collect();
    let chain = tree_from_chain(&operands, &ops, table);
    let cond = Tree::bin(idx([">", "<"][rng.below(2)]), Tree::var("x"), Tree::lit(["0.5", "1", "1.5"][rng.below(3)]));
    let other = arith(rng, table, 2);
    if rng.chance(1, 2) {
        Tree::bin(idx("else"), Tree::bin(idx("if"), chain, cond), other)
    } else {
        Tree::bin(idx("else"), Tree::bin(idx("if"), other, cond), chain)
    }
}

fn case(rng: &mut Rng, table: &Table, st: &mut Stats) {
    let nest = rng.range(0, 3);
    let long = rng.chance(1, 12);
    let tree = if long { long_branch(rng, table) } else { piece(rng, table, nest) };
    let vars = tree.vars();
    if vars.is_empty() {
        return;
    }
    if in_known_class(&tree, table) {
        st.bump("generated_trees_in_known_finding_class_excluded");
        return;
    }
    let cfg = if long || rng.chance(1, 2) { RenderCfg::plain() } else { RenderCfg { extra_paren: rng.below(3), space: rng.below(3), brace: rng.below(2), ..RenderCfg::plain() } };
    let text = render(&tree, table, rng, &cfg);
    if long {
        st.bump("long_single_level_branches");
    }
    let wrt = rng.below(vars.len());
    st.bump("cases");
    st.class(tree.shape_key(table));
    let nested = text.matches(" if ").count() + text.matches(")if").count();
    st.bump(&format!("piecewise_nesting_{}", nested.min(3)));
    let how = if long && rng.chance(2, 3) { 2 } else { rng.below(4) };
    let deep = how == 1;
    let d = catch(|| -> Result<exmex::FlatExVal<i32, f64>, String> {
        if how >= 2 {
            // parsed directly as a deep expression: several operators share one nesting level
            let dd = exmex::DeepEx::<Val<i32, f64>, exmex::ValOpsFactory<i32, f64>, exmex::ValMatcher>::parse(&text).map_err(|e| format!("parse: {}", e.msg()))?;
            let dd = dd.partial(wrt).map_err(|e| e.msg().to_string())?;
            return exmex::FlatExVal::<i32, f64>::from_deepex(dd).map_err(|e| e.msg().to_string());
        }
        let e = exmex::parse_val::<i32, f64>(&text).map_err(|e| format!("parse: {}", e.msg()))?;
        if deep {
            let dd = e.to_deepex().map_err(|e| e.msg().to_string())?.partial(wrt).map_err(|e| e.msg().to_string())?;
            exmex::FlatExVal::<i32, f64>::from_deepex(dd).map_err(|e| e.msg().to_string())
        } else {
            e.partial(wrt).map_err(|e| e.msg().to_string())
        }
    });
    let d = match d {
        Ok(Ok(d)) => d,
        Ok(Err(m)) => {
            if crate::core::is_zero_pow_zero(&m) {
                st.bump("zero_to_the_zero_errors_not_judged");
            } else {
                st.violation(format!("error|{text}"), text.len(), json!({"kind": "val-derivative-error", "text": text, "wrt": vars[wrt], "error": m}));
            }
            return;
        }
        Err(m) => {
            st.violation(format!("panic|{text}"), text.len(), json!({"kind": "val-derivative-panic", "text": text, "wrt": vars[wrt], "panic": m}));
            return;
        }
    };
    if d.var_names() != vars.as_slice() {
        st.violation(format!("vars|{text}"), text.len(), json!({"kind": "val-derivative-variables", "text": text, "got": d.var_names(), "want": vars}));
        return;
    }
    let (mut seen_true, mut seen_false) = (0, 0);
    for _ in 0..6 {
        let p: Vec<f64> = (0..vars.len()).map(|_| if rng.chance(1, 5) { -(0.2 + 1.5 * rng.unit()) } else { 0.1 + 2.4 * rng.unit() }).collect();
        let at = |p: &[f64]| {
            let vals: Vec<Dual<f64>> = p.iter().enumerate().map(|(i, x)| Dual::var(*x, i == wrt)).collect();
            let mut ev = Ev { table, vars: &vars, vals: &vals, maxmag: 0.0, cond_true: 0, cond_false: 0, known_class: false };
            let r = ev.eval(&tree);
            (r, ev.maxmag, ev.cond_true, ev.cond_false, ev.known_class)
        };
        let (r, mag, ct, cf, known) = at(&p);
        if known {
            st.bump("points_in_known_finding_class_K1_runtime_variant_not_judged");
            continue;
        }
        st.bump("points_sampled");
        let want = match r {
            TV::F(d) => d,
            TV::I(_) => Dual::c(0.0),
            TV::Unsafe => {
                st.bump("points_near_singularity_or_branch_boundary_not_judged");
                continue;
            }
            _ => {
                st.bump("points_with_error_or_non_numeric_value_not_judged");
                continue;
            }
        };
        if mag > 1e6 {
            continue;
        }
        // conditioning
        let q: Vec<f64> = p.iter().map(|x| x * (1.0 + 1e-9)).collect();
        match at(&q).0 {
            TV::F(d2) if (d2.d - want.d).abs() <= 1e-5 * want.d.abs().max(1e-3) => {}
            TV::I(_) => {}
            _ => continue,
        }
        seen_true += ct;
        seen_false += cf;
        st.bump("points_judged");
        if long && how >= 2 {
            st.bump("points_judged_long_single_level_branch_deep_parse");
        }
        let vals: Vec<Val<i32, f64>> = p.iter().map(|x| Val::Float(*x)).collect();
        let got = catch(|| d.eval(&vals));
        let gotf = match &got {
            Ok(Ok(v)) => to_f(v),
            _ => None,
        };
        let via = ["FlatExVal::partial", "flat->deep->partial", "DeepEx::parse->partial", "DeepEx::parse->partial"][how];
        let ok = gotf.map(|g| close(g, want.d, mag, 1e-9)).unwrap_or(false);
        if !ok {
            st.violation(
                format!("value|{text}|d{}", vars[wrt]),
                text.len(),
                json!({"kind": "val-derivative-value", "text": text, "wrt": vars[wrt], "variables": vars, "point": p, "got": format!("{got:?}"), "derivative_of_the_selected_branch": want.d, "derivative_text": d.unparse(), "via": via}),
            );
            return;
        }
    }
    st.add("conditions_true_at_judged_points", seen_true as u64);
    st.add("conditions_false_at_judged_points", seen_false as u64);
    if seen_true > 0 && seen_false > 0 {
        st.bump("cases_judged_on_both_sides_of_a_branch");
    }
    if st.samples.len() < st.max_samples && nested >= 1 && text.len() < 60 {
        st.sample(json!({"text": text, "wrt": vars[wrt], "derivative_printed": d.unparse()}));
    }
}

/// Integer-typed evaluation points: piecewise polynomials over integer literals (+ - * and
/// literal powers, no division), variables bound to Int values, conditions comparing
/// polynomials.  Everything is an integer, the reference (value, derivative) is exact; the
/// wide instantiation Val<i64, f64> keeps exmex's derivative form away from overflow.
fn int_poly(rng: &mut Rng, table: &Table, depth: usize) -> Tree {
    let idx = |n: &str| table.iter().position(|o| o.name == n).unwrap();
    if depth == 0 || rng.chance(1, 4) {
        return if rng.chance(2, 3) { Tree::var(["x", "y"][rng.below(2)]) } else { Tree::lit(["1", "2", "3", "4"][rng.below(4)]) };
    }
    match rng.below(8) {
        0 => Tree::un(idx("-"), int_poly(rng, table, depth - 1)),
        1..=2 => Tree::bin(idx("^"), int_poly(rng, table, depth - 1), Tree::lit(["2", "3", "4"][rng.below(3)])),
        _ => Tree::bin(idx(["+", "-", "*"][rng.below(3)]), int_poly(rng, table, depth - 1), int_poly(rng, table, depth - 1)),
    }
}

/// exact (value, derivative, on a branch boundary); None = outside +-10^4 somewhere
fn int_eval(t: &Tree, table: &Table, vars: &[String], p: &[i64], wrt: usize, boundary: &mut bool) -> Option<Option<(i64, i64)>> {
    const LIM: i64 = 10_000;
    let ok = |v: i64, d: i64| if v.abs() <= LIM && d.abs() <= LIM { Some(Some((v, d))) } else { None };
    match t {
        Tree::Lit(s) => ok(s.parse().unwrap(), 0),
        Tree::Var(n) => {
            let i = vars.iter().position(|v| v == n).unwrap();
            ok(p[i], (i == wrt) as i64)
        }
        Tree::Const(_) => None,
        Tree::Un(o, a) => {
            let a = int_eval(a, table, vars, p, wrt, boundary)?;
            match (table[*o].name, a) {
                ("-", Some((v, d))) => ok(-v, -d),
                ("+", x) => Some(x),
                _ => None,
            }
        }
        Tree::Bin(o, a, b) => {
            let name = table[*o].name;
            let a = int_eval(a, table, vars, p, wrt, boundary)?;
            if name == "else" {
                return match a {
                    Some(x) => Some(Some(x)),
                    None => int_eval(b, table, vars, p, wrt, boundary),
                };
            }
            if name == "if" {
                // b is the condition
                let Tree::Bin(c, l, r) = &**b_of(t) else { return None };
                let l = int_eval(l, table, vars, p, wrt, boundary)??;
                let r = int_eval(r, table, vars, p, wrt, boundary)??;
                if l.0 == r.0 {
                    *boundary = true;
                }
                let holds = match table[*c].name {
                    "<" => l.0 < r.0,
                    "<=" => l.0 <= r.0,
                    ">" => l.0 > r.0,
                    ">=" => l.0 >= r.0,
                    _ => return None,
                };
                return Some(if holds { a } else { None });
            }
            let b = int_eval(b, table, vars, p, wrt, boundary)?;
            let ((x, dx), (y, dy)) = (a?, b?);
            match name {
                "+" => ok(x + y, dx + dy),
                "-" => ok(x - y, dx - dy),
                "*" => ok(x.checked_mul(y)?, dx.checked_mul(y)?.checked_add(x.checked_mul(dy)?)?),
                "^" => {
                    let e = u32::try_from(y).ok()?;
                    if e == 0 || e > 4 {
                        return None;
                    }
                    let pw = x.checked_pow(e - 1)?;
                    ok(pw.checked_mul(x)?, pw.checked_mul(y)?.checked_mul(dx)?)
                }
                _ => None,
            }
        }
    }
}
fn b_of(t: &Tree) -> &Box<Tree> {
    match t {
        Tree::Bin(_, _, b) => b,
        _ => unreachable!(),
    }
}

fn int_case(rng: &mut Rng, table: &Table, st: &mut Stats) {
    let idx = |n: &str| table.iter().position(|o| o.name == n).unwrap();
    let mut tree = {
        let f = int_poly(rng, table, 2);
        let g = int_poly(rng, table, 2);
        let mut cl = int_poly(rng, table, 1);
        while !cl.has_var() {
            cl = int_poly(rng, table, 1);
        }
        let cr = if rng.chance(1, 2) { Tree::lit(["0", "1", "2", "3"][rng.below(4)]) } else { int_poly(rng, table, 1) };
        let cond = Tree::bin(idx(["<", "<=", ">", ">="][rng.below(4)]), cl, cr);
        Tree::bin(idx("else"), Tree::bin(idx("if"), f, cond), g)
    };
    if rng.chance(1, 3) {
        let other = int_poly(rng, table, 1);
        let op = idx(["+", "*", "-"][rng.below(3)]);
        tree = if rng.chance(1, 2) { Tree::bin(op, tree, other) } else { Tree::bin(op, other, tree) };
    }
    let vars = tree.vars();
    if vars.is_empty() {
        return;
    }
    let text = render(&tree, table, rng, &RenderCfg::plain());
    let wrt = rng.below(vars.len());
    st.bump("cases");
    st.bump("integer_point_cases");
    st.class(("int", tree.shape_key(table)));
    type VI = Val<i64, f64>;
    let how = rng.below(3);
    let d = catch(|| -> Result<exmex::FlatExVal<i64, f64>, String> {
        let e = |x: exmex::ExError| x.msg().to_string();
        match how {
            0 => exmex::parse_val::<i64, f64>(&text).map_err(e)?.partial(wrt).map_err(e),
            1 => exmex::FlatExVal::<i64, f64>::from_deepex(exmex::parse_val::<i64, f64>(&text).map_err(e)?.to_deepex().map_err(e)?.partial(wrt).map_err(e)?).map_err(e),
            _ => exmex::FlatExVal::<i64, f64>::from_deepex(exmex::DeepEx::<VI, exmex::ValOpsFactory<i64, f64>, exmex::ValMatcher>::parse(&text).map_err(e)?.partial(wrt).map_err(e)?).map_err(e),
        }
    });
    let d = match d {
        Ok(Ok(d)) => d,
        Ok(Err(m)) => {
            if crate::core::is_zero_pow_zero(&m) {
                st.bump("zero_to_the_zero_errors_not_judged");
            } else {
                st.violation(format!("int-error|{text}"), text.len(), json!({"kind": "val-derivative-error", "text": text, "wrt": vars[wrt], "error": m}));
            }
            return;
        }
        Err(m) => {
            st.violation(format!("int-panic|{text}"), text.len(), json!({"kind": "val-derivative-panic", "text": text, "wrt": vars[wrt], "panic": m}));
            return;
        }
    };
    for _ in 0..5 {
        let p: Vec<i64> = (0..vars.len()).map(|_| rng.range(0, 7) as i64 - 3).collect();
        let mut boundary = false;
        let r = int_eval(&tree, table, &vars, &p, wrt, &mut boundary);
        let Some(Some((_, want))) = r else {
            st.bump("integer_points_out_of_range_not_judged");
            continue;
        };
        if boundary {
            st.bump("integer_points_on_a_branch_boundary_not_judged");
            continue;
        }
        st.bump("integer_points_judged");
        let vals: Vec<VI> = p.iter().map(|x| Val::Int(*x)).collect();
        let got = catch(|| d.eval(&vals));
        let gotf = match &got {
            Ok(Ok(Val::Int(i))) => Some(*i as f64),
            Ok(Ok(Val::Float(f))) => Some(*f),
            _ => None,
        };
        if gotf != Some(want as f64) {
            st.violation(
                format!("int-value|{text}|d{}", vars[wrt]),
                text.len(),
                json!({"kind": "val-derivative-value-at-integer-point", "text": text, "wrt": vars[wrt], "variables": vars, "point": p, "got": format!("{got:?}"), "derivative_of_the_selected_branch": want, "derivative_text": d.unparse()}),
            );
            return;
        }
    }
}

/// Integer-typed points on expressions with elementary functions.  Whether a function accepts
/// an integer argument is the value type's business; but wherever the expression itself
/// evaluates to the number the all-float reading gives, its derivative must be the derivative of
/// that function there.  (Division-free, literal integer exponents: the typed pitfalls of K1
/// stay out.)
fn fpoly(rng: &mut Rng, table: &Table, depth: usize) -> Tree {
    let idx = |n: &str| table.iter().position(|o| o.name == n).unwrap();
    if depth == 0 || rng.chance(1, 4) {
        return match rng.below(8) {
            0..=4 => Tree::var(["x", "y"][rng.below(2)]),
            5..=6 => Tree::lit(["1", "2", "3"][rng.below(3)]),
            _ => Tree::lit(["0.5", "2.0", "1.5"][rng.below(3)]),
        };
    }
    match rng.below(10) {
        0..=2 => Tree::un(idx(FUNS[rng.below(8)]), fpoly(rng, table, depth - 1)),
        3 => Tree::un(idx("-"), fpoly(rng, table, depth - 1)),
        4 => Tree::bin(idx("^"), fpoly(rng, table, depth - 1), Tree::lit(["2", "3"][rng.below(2)])),
        _ => Tree::bin(idx(["+", "-", "*"][rng.below(3)]), fpoly(rng, table, depth - 1), fpoly(rng, table, depth - 1)),
    }
}

fn int_fun_case(rng: &mut Rng, table: &Table, st: &mut Stats) {
    let idx = |n: &str| table.iter().position(|o| o.name == n).unwrap();
    let mut tree = fpoly(rng, table, 3);
    if rng.chance(1, 3) {
        let cond = Tree::bin(idx([">", "<"][rng.below(2)]), Tree::var(["x", "y"][rng.below(2)]), Tree::lit(["0", "1", "2"][rng.below(3)]));
        let other = fpoly(rng, table, 2);
        tree = Tree::bin(idx("else"), Tree::bin(idx("if"), tree, cond), other);
    }
    let vars = tree.vars();
    if vars.is_empty() {
        return;
    }
    let text = render(&tree, table, rng, &RenderCfg::plain());
    let wrt = rng.below(vars.len());
    st.bump("cases");
    st.bump("integer_point_function_cases");
    st.class(("intfun", tree.shape_key(table)));
    let r = catch(|| -> Result<(exmex::FlatExVal<i32, f64>, exmex::FlatExVal<i32, f64>), String> {
        let e = |x: exmex::ExError| x.msg().to_string();
        let f = exmex::parse_val::<i32, f64>(&text).map_err(e)?;
        let d = if rng.chance(1, 2) { f.clone().partial(wrt).map_err(e)? } else { exmex::FlatExVal::<i32, f64>::from_deepex(f.clone().to_deepex().map_err(e)?.partial(wrt).map_err(e)?).map_err(e)? };
        Ok((f, d))
    });
    let (f, d) = match r {
        Ok(Ok(x)) => x,
        Ok(Err(m)) => {
            if !crate::core::is_zero_pow_zero(&m) {
                st.violation(format!("intfun-error|{text}"), text.len(), json!({"kind": "val-derivative-error", "text": text, "wrt": vars[wrt], "error": m}));
            }
            return;
        }
        Err(m) => {
            st.violation(format!("intfun-panic|{text}"), text.len(), json!({"kind": "val-derivative-panic", "text": text, "wrt": vars[wrt], "panic": m}));
            return;
        }
    };
    for _ in 0..5 {
        let p: Vec<i32> = (0..vars.len()).map(|_| rng.range(0, 9) as i32 - 3).collect();
        let vals: Vec<Dual<f64>> = p.iter().enumerate().map(|(i, x)| Dual::var(*x as f64, i == wrt)).collect();
        let mut ev = Ev { table, vars: &vars, vals: &vals, maxmag: 0.0, cond_true: 0, cond_false: 0, known_class: false };
        let want = match ev.eval(&tree) {
            TV::F(d) => d,
            TV::I(v) => Dual::c(v as f64),
            _ => continue,
        };
        if ev.maxmag > 1e6 {
            continue;
        }
        let ivals: Vec<Val<i32, f64>> = p.iter().map(|x| Val::Int(*x)).collect();
        // does exmex evaluate the expression itself to that number at the integer point?
        let fv = catch(|| f.eval(&ivals)).ok().and_then(|r| r.ok()).and_then(|v| to_f(&v));
        match fv {
            Some(v) if close(v, want.v, ev.maxmag, 1e-9) => {}
            _ => {
                st.bump("integer_points_where_the_expression_itself_is_no_number_not_judged");
                continue;
            }
        }
        st.bump("integer_points_with_functions_judged");
        let got = catch(|| d.eval(&ivals));
        let gotf = match &got {
            Ok(Ok(v)) => to_f(v),
            _ => None,
        };
        if !gotf.map(|g| close(g, want.d, ev.maxmag, 1e-9)).unwrap_or(false) {
            st.violation(
                format!("intfun-value|{text}|d{}", vars[wrt]),
                text.len(),
                json!({"kind": "val-derivative-value-at-integer-point", "text": text, "wrt": vars[wrt], "variables": vars, "point": p, "value_of_the_expression": fv, "got": format!("{got:?}"), "derivative_of_the_selected_branch": want.d, "derivative_text": d.unparse()}),
            );
            return;
        }
    }
}

fn known_catalogue(st: &mut Stats) {
    for (text, wrt, at, truth) in KNOWN_WITNESSES {
        let r = catch(|| exmex::parse_val::<i32, f64>(text).and_then(|e| e.partial(*wrt)).and_then(|d| d.eval(&[Val::Float(*at)])));
        let got = match &r {
            Ok(Ok(v)) => to_f(v),
            _ => None,
        };
        st.bump("known_finding_witnesses_run");
        if got.map(|g| (g - truth).abs() > 1e-9).unwrap_or(true) {
            st.violation(
                format!("K1|{text}"),
                text.len(),
                json!({"kind": "known-finding-witness", "text": text, "at": at, "got": format!("{r:?}"), "true_derivative": truth}),
            );
        }
    }
}

pub fn run(ctx: &Ctx) -> i32 {
    let n = ctx.n(120_000, 6_000_000);
    let stats = run_workers(ctx, 18, |w, rng, st| {
        let table: Table = val_table().into_iter().filter(|o| ["+", "-", "*", "/", "^", "<", "<=", ">", ">=", "==", "!=", "if", "else"].contains(&o.name) || FUNS.contains(&o.name)).collect();
        if w == 0 {
            known_catalogue(st);
        }
        let quota = share(n, w, ctx.threads);
        for i in 0..quota {
            if i % 8 == 6 {
                int_fun_case(rng, &table, st);
            } else if i % 8 == 3 {
                int_case(rng, &table, st);
            } else {
                case(rng, &table, st);
            }
        }
    });
    let report = Report::new(
        "piecewise expressions `f if cond else g` (nesting 0..3, arithmetic and elementary functions around and inside, integer and float literals mixed, comparison conditions on the variables) rendered from reference trees, differentiated through parse_val(..).partial(i) and through DeepEx, evaluated at float points; branches that are parenthesis-free chains of 18..40 operands parsed directly as deep expressions; piecewise integer polynomials at integer-typed points (exact reference); division-free expressions with elementary functions at integer-typed points, judged wherever the expression itself evaluates to the number of the all-float reading. Oracle: a typed dual-number evaluator that follows the documented typing (integer with integer stays integer incl. truncating division, integer meets float is promoted, comparisons give booleans, `if`/`else` select a branch) so that the reference derivative is the derivative of the branch selected at that point; 1e-9 relative tolerance at points 0.05 away from every singularity and branch boundary. Conditions are observed on both sides. The known-finding class K1 (quotient with an integer-typed constant divisor under a variable numerator) is excluded from the random generator by predicate and run as a fixed witness catalogue. distinct_nontrivial = distinct tree classes.",
    )
    .assume("in the general family variables are bound to Float values (an Int-valued variable would make x/2 a truncating division); integer-typed points are used on the division-free polynomial family over Val<i64, f64>, where everything is exact")
    .require("integer_points_judged", 5000)
    .require("integer_points_with_functions_judged", 2000)
    .require("points_judged_long_single_level_branch_deep_parse", 1000)
    .require("points_judged", 20000)
    .require("cases_judged_on_both_sides_of_a_branch", 1000)
    .require("piecewise_nesting_2", 500)
    .require("conditions_true_at_judged_points", 1000)
    .require("conditions_false_at_judged_points", 1000);
    finish(ctx, stats, report)
}
