//! C16 Value-typed arithmetic follows the documented typing and error rules.
use crate::core::{catch, finish, run_workers, share, Ctx, Report, Stats};
use crate::rng::Rng;
use crate::stdtables::val_table;
use crate::sym::Table;
use crate::tree::*;
use crate::valcheck::{direct_i32_f64, direct_i64_f32, Finding};
use exmex::{Express, MakeOperators, Val, ValOpsFactory};
use serde_json::json;

type V = Val<i32, f64>;

const EXPR_BIN: &[&str] = &["+", "-", "*", "/", "%", "|", "&", "XOR", "<<", ">>", "==", "!=", "<", "<=", ">", ">=", "min", "max", "^", "&&", "||"];
const EXPR_UN: &[&str] = &["-", "+", "abs", "signum", "fact", "to_float", "to_int"];
/// flagged commutative but not associative: never chained with themselves (C01 would allow regrouping)
const NO_SELF_CHAIN: &[&str] = &["==", "!=", "&&", "||"];

fn expr_table() -> Table {
    val_table()
        .into_iter()
        .filter(|o| EXPR_BIN.contains(&o.name) || EXPR_UN.contains(&o.name))
        .map(|mut o| {
            if o.bin.is_some() && !(o.name == "+" || o.name == "-") {
                o.un = None;
            }
            o
        })
        .collect()
}

fn self_chained(t: &Tree, table: &Table) -> bool {
    match t {
        Tree::Un(_, a) => self_chained(a, table),
        Tree::Bin(o, a, b) => {
            let same = |c: &Tree| matches!(c, Tree::Bin(o2, _, _) if o2 == o);
            (NO_SELF_CHAIN.contains(&table[*o].name) && (same(a) || same(b))) || self_chained(a, table) || self_chained(b, table)
        }
        _ => false,
    }
}

fn lit_val(s: &str) -> V {
    if s.contains('.') {
        Val::Float(s.parse().unwrap())
    } else if s == "true" || s == "false" {
        Val::Bool(s == "true")
    } else {
        Val::Int(s.parse().unwrap())
    }
}

/// reference value: the shipped operator functions applied along the reference tree
fn reference(t: &Tree, table: &Table, ops: &[exmex::Operator<'static, V>], vars: &[String], vals: &[V], saw_error: &mut bool) -> V {
    let r = match t {
        Tree::Lit(s) => lit_val(s),
        Tree::Var(n) => vals[vars.iter().position(|v| v == n).unwrap()].clone(),
        Tree::Const(_) => unreachable!(),
        Tree::Un(o, a) => {
            let a = reference(a, table, ops, vars, vals, saw_error);
            let f = ops.iter().find(|x| x.repr() == table[*o].name).unwrap().unary().unwrap();
            f(a)
        }
        Tree::Bin(o, a, b) => {
            let a = reference(a, table, ops, vars, vals, saw_error);
            let b = reference(b, table, ops, vars, vals, saw_error);
            let f = ops.iter().find(|x| x.repr() == table[*o].name).unwrap().bin().unwrap();
            (f.apply)(a, b)
        }
    };
    if matches!(r, Val::Error(_)) {
        *saw_error = true;
    }
    r
}

/// A chain `a o b o c ..` of one flagged (commutative) operator may be regrouped by exmex
/// (neighbouring operands only, never reordered): every value a regrouping can compute is the
/// combination of a contiguous run of the chain's operands.  True if one of those runs gives an
/// error value although the left-to-right reference does not - then an error result of exmex
/// is a consequence of a permitted regrouping (checked integer arithmetic is not associative
/// with respect to overflow: `0*y^10*-7` at y = 8 is 0 from the left and an overflow from the right).
fn regrouping_may_error(t: &Tree, table: &Table, ops: &[exmex::Operator<'static, V>], vars: &[String], vals: &[V]) -> bool {
    fn chain<'t>(t: &'t Tree, o: usize, out: &mut Vec<&'t Tree>) {
        match t {
            Tree::Bin(o2, a, b) if *o2 == o => {
                chain(a, o, out);
                chain(b, o, out);
            }
            _ => out.push(t),
        }
    }
    match t {
        Tree::Un(_, a) => regrouping_may_error(a, table, ops, vars, vals),
        Tree::Bin(o, a, b) => {
            if table[*o].bin.as_ref().map(|b| b.comm).unwrap_or(false) {
                let mut operands = vec![];
                chain(t, *o, &mut operands);
                if operands.len() > 2 {
                    let f = ops.iter().find(|x| x.repr() == table[*o].name).unwrap().bin().unwrap();
                    let mut dummy = false;
                    let values: Vec<V> = operands.iter().map(|c| reference(c, table, ops, vars, vals, &mut dummy)).collect();
                    for i in 0..values.len() {
                        let mut acc = values[i].clone();
                        for v in &values[i + 1..] {
                            acc = (f.apply)(acc, v.clone());
                            if matches!(acc, Val::Error(_)) {
                                return true;
                            }
                        }
                    }
                }
                return operands.iter().any(|c| regrouping_may_error(c, table, ops, vars, vals));
            }
            regrouping_may_error(a, table, ops, vars, vals) || regrouping_may_error(b, table, ops, vars, vals)
        }
        _ => false,
    }
}

const VAL_LITS: &[&str] = &["0", "1", "2", "3", "4", "5", "7", "9", "2.0", "0.5", "1.5", "3.0", "true", "false", "10", "8"];

const INT_BIN: &[&str] = &["+", "-", "*", "/", "%", "|", "&", "XOR", "<<", ">>", "min", "max", "^"];
const INT_UN: &[&str] = &["-", "+", "abs", "signum", "fact", "to_float"];
const NUM_BIN: &[&str] = &["+", "-", "*", "/", "min", "max"];
const NUM_UN: &[&str] = &["-", "+", "abs", "signum", "to_float", "to_int"];
const CMP_OPS: &[&str] = &["==", "!=", "<", "<=", ">", ">="];

fn expression_case(rng: &mut Rng, full_table: &Table, ops: &[exmex::Operator<'static, V>], st: &mut Stats) {
    // three families keep most intermediate values free of error values: integers only,
    // mixed numbers, and anything (the original untyped generator)
    let family = rng.below(3);
    let keep: Vec<&str> = match family {
        0 => INT_BIN.iter().chain(INT_UN.iter()).copied().collect(),
        1 => NUM_BIN.iter().chain(NUM_UN.iter()).copied().collect(),
        _ => EXPR_BIN.iter().chain(EXPR_UN.iter()).copied().collect(),
    };
    let sub: Table = full_table.iter().filter(|o| keep.contains(&o.name)).cloned().collect();
    let lits: &[&str] = match family {
        0 => &["0", "1", "2", "3", "4", "5", "7", "9", "10", "8"],
        1 => &["0", "1", "2", "3", "5", "2.0", "0.5", "1.5", "3.0", "7", "0.25"],
        _ => VAL_LITS,
    };
    let gcfg = GenCfg { lit_num: rng.range(3, 8), const_num: 0, un_num: rng.below(3), chain_num: rng.below(8), vars: vec!["x".into(), "y".into(), "z".into()] };
    let size = rng.range(2, 8);
    let t = gen_tree(rng, &sub, size, &gcfg);
    fn relit(t: &Tree, rng: &mut Rng, lits: &[&str]) -> Tree {
        match t {
            Tree::Lit(_) => Tree::lit(*rng.pick(lits)),
            Tree::Un(o, a) => Tree::un(*o, relit(a, rng, lits)),
            Tree::Bin(o, a, b) => Tree::bin(*o, relit(a, rng, lits), relit(b, rng, lits)),
            _ => t.clone(),
        }
    }
    // translate the operator indices of the sub-table into the full table, optionally put a
    // comparison at the root
    fn reindex(t: &Tree, sub: &Table, full: &Table) -> Tree {
        let f = |o: usize| full.iter().position(|x| x.name == sub[o].name).unwrap();
        match t {
            Tree::Un(o, a) => Tree::un(f(*o), reindex(a, sub, full)),
            Tree::Bin(o, a, b) => Tree::bin(f(*o), reindex(a, sub, full), reindex(b, sub, full)),
            _ => t.clone(),
        }
    }
    let mut tree = reindex(&relit(&t, rng, lits), &sub, full_table);
    if family < 2 && rng.chance(1, 3) {
        let k = rng.range(1, 4);
        let t2 = gen_tree(rng, &sub, k, &gcfg);
        let other = reindex(&relit(&t2, rng, lits), &sub, full_table);
        let cmp_name = *rng.pick(CMP_OPS);
        let cmp = full_table.iter().position(|o| o.name == cmp_name).unwrap();
        tree = Tree::bin(cmp, tree, other);
    }
    let table = full_table;
    st.bump(["expression_family_integers", "expression_family_mixed_numbers", "expression_family_untyped"][family]);
    let int_vars = family == 0;
    if self_chained(&tree, table) {
        return;
    }
    let cfg = if rng.chance(1, 2) { RenderCfg::plain() } else { RenderCfg { call: rng.below(3), ..RenderCfg::random(rng) } };
    let text = render(&tree, table, rng, &cfg);
    let vars = tree.vars();
    let vals: Vec<V> = vars.iter().map(|_| if int_vars || rng.chance(1, 2) { Val::Int(rng.below(10) as i32) } else { Val::Float([0.5, 1.0, 2.0, 2.5, 4.0][rng.below(5)]) }).collect();
    let mut saw_error = false;
    let want = match catch(|| reference(&tree, table, ops, &vars, &vals, &mut saw_error)) {
        Ok(w) => w,
        Err(_) => return,
    };
    st.bump("cases");
    st.bump("expression_cases");
    st.class(("expr", tree.shape_key(table)));
    if saw_error {
        // an intermediate error value (overflow, kinds): regrouping of flagged operators may
        // legitimately change where it arises
        st.bump("expression_cases_with_intermediate_error_not_judged");
        return;
    }
    let got = catch(|| exmex::parse_val::<i32, f64>(&text).and_then(|e| if e.var_names() == vars.as_slice() { e.eval(&vals) } else { Err(exmex::ExError::new("variable list differs")) }));
    if matches!(got, Ok(Ok(Val::Error(_)))) && regrouping_may_error(&tree, table, ops, &vars, &vals) {
        st.bump("expression_cases_with_error_reachable_by_permitted_regrouping_not_judged");
        return;
    }
    let problem = match got {
        Err(m) => Some(format!("panic: {m}")),
        Ok(Err(e)) => Some(format!("error: {}", e.msg())),
        Ok(Ok(v)) => {
            // a permitted regrouping of flagged + and * changes float rounding (and the sign of a
            // zero): floats are compared to within rounding, everything else exactly
            let same = match (&v, &want) {
                (Val::Float(a), Val::Float(b)) => (a.is_nan() && b.is_nan()) || a == b || (a - b).abs() <= 1e-9 * a.abs().max(b.abs()),
                _ => format!("{v:?}") == format!("{want:?}"),
            };
            if !same {
                Some(format!("value {v:?}, documented semantics give {want:?}"))
            } else {
                None
            }
        }
    };
    st.bump("expression_cases_judged");
    if let Some(p) = problem {
        if st.violations.len() < 8 {
            st.violation(format!("expr|{text}|{vals:?}"), text.len(), json!({"kind": "value-expression", "text": text, "variables": vars, "values": format!("{vals:?}"), "problem": p}));
        } else {
            st.bump("violations_raw");
        }
    } else if st.samples.len() < st.max_samples && text.len() < 40 && text.len() > 10 {
        st.sample(json!({"text": text, "values": format!("{vals:?}"), "value": format!("{want:?}")}));
    }
}

pub fn record(st: &mut Stats, f: &Finding) {
    st.violation(f.sig(), f.operands.len(), json!({"kind": format!("{:?}", f.kind), "types": f.types, "operator": f.op, "operands": f.operands, "documented": f.expected, "got": f.got}));
}

pub fn run(ctx: &Ctx) -> i32 {
    let n_expr = ctx.n(300_000, 10_000_000);
    let n_rand = ctx.n(300, 30_000);
    // What an operator returns must not depend on which instantiation of the value type the
    // process used first.  This process runs the narrow instantiation (i32) once before anything
    // else, so the wide one (i64) is always judged after it; C17's release process does it the
    // other way round.
    {
        let mut st = Stats::new();
        let mut rng = Rng::new(ctx.seed, 161616);
        let mut sink: Vec<Finding> = vec![];
        direct_i32_f64(&mut rng, 3, &mut st, &mut sink);
    }
    let stats = run_workers(ctx, 16, |w, rng, st| {
        // the catalogue is enumerated exhaustively by worker 0 and 1 (one type pair each);
        // every worker adds its own random operands
        let mut findings: Vec<Finding> = vec![];
        if w == 0 {
            direct_i32_f64(rng, n_rand, st, &mut findings);
        } else if w == 1 || ctx.threads == 1 {
            direct_i64_f32(rng, n_rand, st, &mut findings);
        }
        st.add("cases", st.get("applications"));
        for f in &findings {
            record(st, f);
        }
        if w == 0 {
            st.sample(json!({"operator": "%", "operands": "(Int(-2147483648), Int(-1))", "documented": "error value (overflow)"}));
            st.sample(json!({"operator": "+", "operands": "(Int(1), Float(0.5))", "documented": "Float(1.5) (integer promoted)"}));
        }
        let table = expr_table();
        let ops: Vec<exmex::Operator<'static, V>> = ValOpsFactory::<i32, f64>::make();
        let quota = share(n_expr, w, ctx.threads);
        for _ in 0..quota {
            expression_case(rng, &table, &ops, st);
        }
    });
    let mut report = Report::new(
        "(1) every operator of ValOpsFactory<i32,f64> and <i64,f32> applied directly (function pointers) to the full catalogue (18 integers incl. MIN/MAX/0/-1/bit-width+-1, 23 floats incl. NaN/inf/-0.0/huge/integer-range edges, bools, none, error, arrays of length 0..5): unary x every value, binary x every ordered pair, `a if c else b` x every (a, c, b); plus random operands; compared with a reference interpreter of the documented rules only (integer results exact in i128 or an error value, int/float promotion in + - * / min max, comparisons, error propagation, wrong kinds -> error value); pairs the documentation says nothing about are executed but not judged. (2) random expressions over the value table (small operands, so flagged operators really are AC) through parse_val in random spellings: value must equal the shipped operator functions applied along the reference tree. distinct_nontrivial = operators x arity x type pair + distinct expression tree classes.",
    )
    .assume("array broadcasting, &&/|| on non-booleans, != beyond negation of ==, Int^Float, elementary functions of integers: no documented claim, not judged")
    .assume("expressions with an intermediate error value are not judged at expression level (regrouping of flagged operators may move it); likewise an error result is not judged when some contiguous run of a flagged operator's chain overflows although the left-to-right evaluation does not")
    .require("applications_judged", 20000)
    .require("applications_where_an_error_value_is_promised", 2000)
    .require("if_else_judged", 1000)
    .require("expression_cases_judged", 10000);
    report.exhaustive = false;
    report.extra = json!({"exhaustive_subspace": "every operator x every catalogue value / ordered pair of catalogue values, both type instantiations"});
    finish(ctx, stats, report)
}
