//! C17 Value-typed operators are total: problems surface as error values.
use crate::core::{catch, finish, run_workers, Ctx, Report, Stats};
use crate::valcheck::{direct_i32_f64, direct_i64_f32, literal_of, FKind, Finding};
use crate::valmodel::m32;
use exmex::{Express, MakeOperators, Val, ValOpsFactory};
use serde_json::json;

fn record(st: &mut Stats, f: &Finding, profile: &str) {
    st.violation(
        format!("{}|{profile}", f.sig()),
        f.operands.len(),
        json!({"kind": format!("{:?}", f.kind), "build_profile": profile, "types": f.types, "operator": f.op, "operands": f.operands, "documented": f.expected, "got": f.got}),
    );
}

/// the same operands injected as literals so that parse-time folding executes the operator
fn folding(st: &mut Stats) {
    let ops = ValOpsFactory::<i32, f64>::make();
    let cat = m32::catalogue();
    let lits: Vec<(Val<i32, f64>, String)> = cat.iter().filter_map(|v| literal_of(v).map(|l| (v.clone(), l))).collect();
    st.add("catalogue_values_expressible_as_literals", lits.len() as u64);
    let variant = |v: &Val<i32, f64>| match v {
        Val::Error(_) => "Error".to_string(),
        other => format!("{other:?}"),
    };
    let mut check = |text: String, direct: Result<Val<i32, f64>, String>, st: &mut Stats| {
        st.bump("cases");
        st.bump("folded_at_parse_time");
        let got = catch(|| exmex::parse_val::<i32, f64>(&text).map(|e| e.eval(&[])));
        match got {
            Err(m) => st.violation(format!("fold-panic|{text}"), text.len(), json!({"kind": "panic-while-parsing", "text": text, "panic": m})),
            Ok(Err(_)) => st.bump("literal_texts_rejected_by_the_parser_not_judged"),
            Ok(Ok(Err(e))) => st.violation(format!("fold-eval-error|{text}"), text.len(), json!({"kind": "eval-error", "text": text, "error": e.msg()})),
            Ok(Ok(Ok(v))) => {
                if let Ok(d) = direct {
                    if variant(&v) != variant(&d) {
                        st.violation(format!("fold-differs|{text}"), text.len(), json!({"kind": "folded-value-differs-from-direct-application", "text": text, "folded": format!("{v:?}"), "direct": format!("{d:?}")}));
                    }
                }
            }
        }
    };
    for op in &ops {
        if let Ok(u) = op.unary() {
            for (v, l) in &lits {
                let v2 = v.clone();
                let direct = catch(move || u(v2));
                check(format!("{}({l})", op.repr()), direct, st);
            }
        }
        if let Ok(b) = op.bin() {
            for (x, lx) in &lits {
                for (y, ly) in &lits {
                    let (x2, y2) = (x.clone(), y.clone());
                    let direct = catch(move || (b.apply)(x2, y2));
                    check(format!("({lx}) {} ({ly})", op.repr()), direct, st);
                }
            }
        }
    }
}

/// sub-process mode for the overflow-checking build: prints findings and counters
pub fn run_sub(ctx: &Ctx) -> i32 {
    let mut st = Stats::new();
    let mut rng = crate::rng::Rng::new(ctx.seed, 1717);
    let mut findings = vec![];
    let n_rand = ctx.n(300, 30_000);
    direct_i32_f64(&mut rng, n_rand, &mut st, &mut findings);
    direct_i64_f32(&mut rng, n_rand, &mut st, &mut findings);
    folding(&mut st);
    for f in findings.iter().filter(|f| f.kind != FKind::ValueMismatch) {
        println!("FINDING\t{}", json!({"kind": format!("{:?}", f.kind), "types": f.types, "op": f.op, "operands": f.operands, "expected": f.expected, "got": f.got}));
    }
    for v in &st.violations {
        println!("FINDING\t{}", json!({"kind": "Folding", "types": "Val<i32,f64>", "op": "", "operands": v.sig, "expected": "", "got": v.detail.to_string()}));
    }
    println!("COUNT\tapplications\t{}", st.get("applications"));
    println!("COUNT\tfolded\t{}", st.get("folded_at_parse_time"));
    println!("DEBUG_ASSERTIONS\t{}", cfg!(debug_assertions));
    0
}

pub fn run(ctx: &Ctx) -> i32 {
    if std::env::var("VERIF_C17_SUB").is_ok() {
        return run_sub(ctx);
    }
    let n_rand = ctx.n(300, 30_000);
    // What an operator does must not depend on which instantiation of the value type the process
    // used first: this process runs the wide instantiation (i64) once before anything else, the
    // sub-process with the overflow-checking build starts with the narrow one (i32).
    let mut warm_up: Vec<Finding> = vec![];
    {
        let mut st = Stats::new();
        let mut rng = crate::rng::Rng::new(ctx.seed, 171717);
        direct_i64_f32(&mut rng, 3, &mut st, &mut warm_up);
    }
    let warm_up: Vec<Finding> = warm_up.into_iter().filter(|f| f.kind != FKind::ValueMismatch).collect();
    let mut stats = run_workers(ctx, 17, |w, rng, st| {
        let mut findings: Vec<Finding> = vec![];
        if w == 0 {
            for f in &warm_up {
                record(st, f, "release (overflow wraps silently), wide instantiation first");
            }
            direct_i32_f64(rng, n_rand, st, &mut findings);
            st.sample(json!({"operator": "unary -", "operand": "Int(-2147483648)", "documented": "error value"}));
            st.sample(json!({"text folded at parse time": "to_int(10000000000.0)", "documented": "error value, no panic"}));
        } else if w == 1 || ctx.threads == 1 {
            direct_i64_f32(rng, n_rand, st, &mut findings);
        } else if w == 2 {
            folding(st);
        } else if w % 2 == 1 {
            direct_i32_f64(rng, n_rand * 4, st, &mut findings);
        } else {
            direct_i64_f32(rng, n_rand * 4, st, &mut findings);
        }
        st.add("cases", st.get("applications"));
        for f in findings.iter().filter(|f| f.kind != FKind::ValueMismatch) {
            record(st, f, "release (overflow wraps silently)");
        }
    });
    // the same catalogue in a build with overflow checks and debug assertions
    let exe = ctx.verif_dir.join("target/checked/vmon");
    if exe.exists() {
        let out = std::process::Command::new(&exe).arg("C17").arg(ctx.tier.name()).env("VERIF_C17_SUB", "1").env("VERIF_SEED", ctx.seed.to_string()).output();
        match out {
            Ok(o) if o.status.success() => {
                let txt = String::from_utf8_lossy(&o.stdout);
                let mut dbg = false;
                for line in txt.lines() {
                    let parts: Vec<&str> = line.splitn(3, '\t').collect();
                    match parts.as_slice() {
                        ["FINDING", j] => {
                            if let Ok(v) = serde_json::from_str::<serde_json::Value>(j) {
                                let sig = format!("{}|{}|{}|{}|checked", v["kind"].as_str().unwrap_or(""), v["types"].as_str().unwrap_or(""), v["op"].as_str().unwrap_or(""), v["operands"].as_str().unwrap_or(""));
                                stats.violation(sig, 10, json!({"build_profile": "overflow-checks + debug-assertions", "finding": v}));
                            }
                        }
                        ["COUNT", k, n] => stats.add(&format!("checked_profile_{k}"), n.parse().unwrap_or(0)),
                        ["DEBUG_ASSERTIONS", b] => dbg = *b == "true",
                        _ => {}
                    }
                }
                if dbg {
                    stats.bump("checked_profile_has_debug_assertions");
                }
            }
            Ok(o) => {
                // the checked build died: a crash of the monitored code under overflow checks
                let code = o.status.code().unwrap_or(-1);
                if code == 134 || code == 139 || code == -1 {
                    stats.violation("checked-profile-crash".into(), 1, json!({"build_profile": "overflow-checks + debug-assertions", "problem": "the process aborted", "stderr": String::from_utf8_lossy(&o.stderr).chars().take(500).collect::<String>()}));
                }
            }
            Err(_) => {}
        }
    }
    let report = Report::new(
        "every operator of ValOpsFactory<i32,f64> and <i64,f32> x the full special-value catalogue (unary x every value, binary x every ordered pair) plus random operands, each application under catch_unwind, in TWO builds: release (integer overflow wraps silently, visible as a non-error result) and a build with overflow checks and debug assertions (overflow panics); the same catalogue values written as literal expressions ((0-2147483647-1), (0.0/0.0), (1.0/0.0), (1 if false), (1/0), [1.0, 2.0], ...) inside `op(lit)` / `(lit) op (lit)` so that parse-time folding executes the operator inside parse_val. Oracle: no panic anywhere; an error value wherever the documentation promises one (integer overflow, division/remainder by zero, out-of-range shifts and powers, -MIN, abs(MIN), MIN % -1, casts of NaN/inf/out-of-range floats, wrong operand kinds); the folded value equals the directly applied one. distinct_nontrivial = operators x arity x type pair.",
    )
    .require("applications", 50000)
    .require("applications_where_an_error_value_is_promised", 5000)
    .require("folded_at_parse_time", 10000)
    .require("checked_profile_applications", 50000)
    .require("checked_profile_has_debug_assertions", 1);
    finish(ctx, stats, report)
}
