//! C14 Operands are tracked correctly for every application order and size.
use crate::core::{catch, finish, run_workers, Ctx, Report, Stats};
use crate::rng::Rng;
use crate::sym::{install, intern, OpSpec, Sym, Table, DX, FX};
use exmex::verif::{trace_start, trace_take, NumberTracker, ReductionStep};
use exmex::Express;
use serde_json::json;

/// model: reduce the chain in the order the priorities impose (higher first, ties left to
/// right) with a shadow vector of consumed operands; returns the value and the expected
/// (op, left, right) steps
pub fn model(n: usize, prio: &[i64]) -> (Sym, Vec<(usize, usize, usize)>) {
    model_with((0..n).map(Sym::Var).collect(), prio)
}

/// the same for arbitrary operand values (repeated variables, literals)
pub fn model_with(operands: Vec<Sym>, prio: &[i64]) -> (Sym, Vec<(usize, usize, usize)>) {
    let n = operands.len();
    let mut vals: Vec<Option<Sym>> = operands.into_iter().map(Some).collect();
    let mut order: Vec<usize> = (0..n - 1).collect();
    order.sort_by(|a, b| prio[*b].cmp(&prio[*a]));
    let mut consumed = vec![false; n];
    let mut steps = vec![];
    for op in order {
        let mut l = op;
        while consumed[l] {
            l -= 1;
        }
        let mut r = op + 1;
        while consumed[r] {
            r += 1;
        }
        let a = vals[l].take().unwrap();
        let b = vals[r].take().unwrap();
        vals[l] = Some(Sym::Bin((op % 64) as u8, Box::new(a), Box::new(b)));
        consumed[r] = true;
        steps.push((op, l, r));
    }
    (vals[0].take().unwrap(), steps)
}

/// online checker of a recorded reduction trace against the shadow vector
fn check_trace(trace: &[ReductionStep], n: usize, expected: &[(usize, usize, usize)]) -> Option<String> {
    if trace.len() != n - 1 {
        return Some(format!("{} reduction steps recorded for {} operands", trace.len(), n));
    }
    let mut consumed = vec![false; n];
    for (k, s) in trace.iter().enumerate() {
        if s.n_numbers != n {
            return Some(format!("step {k}: {} numbers, expected {n}", s.n_numbers));
        }
        if s.left_idx > s.op_idx || s.right_idx <= s.op_idx || s.right_idx >= n {
            return Some(format!("step {k}: operands {}/{} not around operator {}", s.left_idx, s.right_idx, s.op_idx));
        }
        if consumed[s.left_idx] || consumed[s.right_idx] {
            return Some(format!("step {k}: operator {} applied to an already consumed operand ({} / {})", s.op_idx, s.left_idx, s.right_idx));
        }
        if (s.left_idx + 1..=s.op_idx).any(|i| !consumed[i]) {
            return Some(format!("step {k}: operator {} skipped a live operand on its left (took {})", s.op_idx, s.left_idx));
        }
        if (s.op_idx + 1..s.right_idx).any(|i| !consumed[i]) {
            return Some(format!("step {k}: operator {} skipped a live operand on its right (took {})", s.op_idx, s.right_idx));
        }
        consumed[s.right_idx] = true;
        // The exact sequence of steps is not demanded (independent reductions may be done in
        // any order); but every step must be one of the model's steps, i.e. the same operator
        // must meet the same two operands as in the reduction the priorities impose.
        if !expected.contains(&(s.op_idx, s.left_idx, s.right_idx)) {
            return Some(format!("step {k}: operator {} applied to operands ({}, {}), which the priorities never bring together", s.op_idx, s.left_idx, s.right_idx));
        }
    }
    let mut seen_ops: Vec<usize> = trace.iter().map(|s| s.op_idx).collect();
    seen_ops.sort();
    seen_ops.dedup();
    if seen_ops.len() != n - 1 {
        return Some("an operator was applied twice or not at all".into());
    }
    if consumed[0] || consumed[1..].iter().any(|c| !c) {
        return Some("at the end not exactly operand 0 is live".into());
    }
    None
}

thread_local! {
    static NAMES: Vec<&'static str> = (0..1100).map(|i| intern(&format!("o{i}q"))).collect();
}

fn chain_case(n: usize, prio: &[i64], kind: &str, st: &mut Stats) {
    let names: Vec<&'static str> = NAMES.with(|v| v[..n - 1].to_vec());
    let table: Table = (0..n - 1).map(|k| OpSpec::bin(names[k], (k % 64) as u8, prio[k], false)).collect();
    install(&table);
    let mut text = String::new();
    for i in 0..n {
        text.push_str(&format!("{{v{i:04}}}"));
        if i + 1 < n {
            text.push_str(&format!(" {} ", names[i]));
        }
    }
    let vals: Vec<Sym> = (0..n).map(Sym::Var).collect();
    let (want, steps) = model(n, prio);
    st.bump("cases");
    st.bump(&format!("chains_{kind}"));
    st.max("max_chain_len", n as u64);
    if n > 64 {
        st.bump("chains_gt64_operands");
    }
    for path in ["flat", "flat_wo", "deep", "flat2deep"] {
        let r = catch(|| {
            trace_start();
            let v = match path {
                "flat" => FX::parse(&text).and_then(|e| {
                    trace_start();
                    e.eval(&vals)
                }),
                "flat_wo" => FX::parse_wo_compile(&text).and_then(|e| {
                    trace_start();
                    e.eval(&vals)
                }),
                "deep" => DX::parse(&text).and_then(|e| {
                    trace_start();
                    e.eval(&vals)
                }),
                _ => FX::parse(&text).and_then(|e| e.to_deepex()).and_then(|e| {
                    trace_start();
                    e.eval(&vals)
                }),
            };
            (v, trace_take())
        });
        let problem = match r {
            Err(m) => Some(format!("panic: {m}")),
            Ok((Err(e), _)) => Some(format!("error: {}", e.msg())),
            Ok((Ok(v), trace)) => {
                st.add("reduction_steps_observed", trace.len() as u64);
                if v != want {
                    Some("final value is not the chain reduced in priority order".to_string())
                } else if path == "flat2deep" {
                    // a converted expression is a nest of two-operand expressions: only the value is judged
                    None
                } else {
                    check_trace(&trace, n, &steps)
                }
            }
        };
        if let Some(p) = problem {
            let pr: Vec<String> = prio.iter().map(|p| p.to_string()).collect();
            st.violation(
                format!("chain|{path}|n={n}|{}|{}", pr.join(","), p.split(':').next().unwrap_or("")),
                n,
                json!({"kind": "chain", "path": path, "operands": n, "priorities": prio, "order_kind": kind, "problem": p}),
            );
            return;
        }
    }
}

/// integer operators whose division panics on a zero divisor, like the primitive
#[derive(Clone, Debug, PartialEq, Eq, PartialOrd, Ord)]
struct PanickyIntOps;
impl exmex::MakeOperators<i64> for PanickyIntOps {
    fn make<'a>() -> Vec<exmex::Operator<'a, i64>> {
        use exmex::{BinOp, Operator};
        vec![
            Operator::make_bin("-", BinOp { apply: |a, b| a.wrapping_sub(b), prio: 1, is_commutative: false }),
            Operator::make_bin("+", BinOp { apply: |a, b| a.wrapping_add(b), prio: 1, is_commutative: false }),
            Operator::make_bin(
                "/",
                BinOp {
                    apply: |a, b| {
                        if b == 0 {
                            panic!("EXPECTED-PANIC division by zero in a user-defined operator")
                        }
                        a.wrapping_div(b)
                    },
                    prio: 2,
                    is_commutative: false,
                },
            ),
        ]
    }
}

/// A reduction that does not complete - an operator panics half-way, the caller catches it -
/// leaves nothing behind: the chains evaluated afterwards on the same thread (this one right
/// here, and all the term-algebra chains that follow) get their operands as always.
fn interrupted_reduction(n: usize, st: &mut Stats) {
    let mut text = String::from("a-b/c-d");
    for k in 0..n {
        text.push_str(&format!("-e{k:03}"));
    }
    let nvars = 4 + n;
    let mut good: Vec<i64> = vec![900, 8, 2, 1];
    good.extend((0..n as i64).map(|k| k + 1));
    let want = 900 - 8 / 2 - 1 - (1..=n as i64).sum::<i64>();
    let mut bad = good.clone();
    bad[2] = 0;
    st.bump("interrupted_reductions");
    let r = catch(|| -> Option<String> {
        let d = exmex::DeepEx::<i64, PanickyIntOps>::parse(&text).ok()?;
        let f = exmex::FlatEx::<i64, PanickyIntOps>::parse(&text).ok()?;
        if d.var_names().len() != nvars {
            return None;
        }
        for round in 0..2 {
            if std::panic::catch_unwind(std::panic::AssertUnwindSafe(|| d.eval(&bad))).is_ok() || std::panic::catch_unwind(std::panic::AssertUnwindSafe(|| f.eval(&bad))).is_ok() {
                return Some("the division by zero of the user-defined operator did not panic".into());
            }
            for (what, got) in [("DeepEx", std::panic::catch_unwind(std::panic::AssertUnwindSafe(|| d.eval(&good)))), ("FlatEx", std::panic::catch_unwind(std::panic::AssertUnwindSafe(|| f.eval(&good))))] {
                match got {
                    Ok(Ok(v)) if v == want => {}
                    Ok(other) => return Some(format!("round {round}: after an evaluation that was interrupted by a panicking operator, {what} evaluates the chain of {nvars} operands to {other:?}, expected {want}")),
                    Err(_) => return Some(format!("round {round}: after an evaluation that was interrupted by a panicking operator, evaluating the {what} chain of {nvars} operands panics")),
                }
            }
        }
        None
    });
    let p = match r {
        Ok(p) => p,
        Err(m) => Some(format!("panic: {m}")),
    };
    if let Some(p) = p {
        st.violation(format!("interrupted-reduction|n={nvars}|{}", p.split(',').next().unwrap_or("")), nvars, json!({"kind": "interrupted-reduction", "text": text, "problem": p}));
    }
}

/// The same chains with operands that are literals and variables in arbitrary textual order and
/// with repetitions, evaluated by borrowing and by the consuming variants (which fill the
/// operand array differently): the operand standing left and right of an operator must be the
/// one the text puts there.
fn chain_case_mixed(n: usize, prio: &[i64], kind: &str, st: &mut Stats) {
    let names: Vec<&'static str> = NAMES.with(|v| v[..n - 1].to_vec());
    let table: Table = (0..n - 1).map(|k| OpSpec::bin(names[k], (k % 64) as u8, prio[k], false)).collect();
    install(&table);
    let mut h: u64 = 0x9e37_79b9_7f4a_7c15 ^ (n as u64);
    for p in prio {
        h = (h ^ (*p as u64)).wrapping_mul(0x100_0000_01b3);
    }
    let mut rng = Rng::new(h, 14);
    // flavour 0: distinct variables in shuffled order; 1: repeated variables; 2: repeated variables and literals
    let flavour = rng.below(3);
    let pool = match flavour {
        0 => n,
        _ => (n / 3).max(2),
    };
    let mut ids: Vec<usize> = (0..n).collect();
    for i in (1..n).rev() {
        ids.swap(i, rng.below(i + 1));
    }
    let operand: Vec<Option<usize>> = (0..n)
        .map(|i| {
            if flavour == 2 && rng.chance(1, 3) {
                None
            } else if flavour == 0 {
                Some(ids[i])
            } else {
                Some(rng.below(pool))
            }
        })
        .collect();
    let mut used: Vec<usize> = operand.iter().flatten().copied().collect();
    used.sort();
    used.dedup();
    let mut text = String::new();
    let mut values = vec![];
    for (i, o) in operand.iter().enumerate() {
        match o {
            None => {
                text.push_str(&format!("{}", i + 1));
                values.push(Sym::lit(&format!("{}", i + 1)));
            }
            Some(j) => {
                text.push_str(&format!("{{w{j:04}}}"));
                values.push(Sym::Var(used.iter().position(|u| u == j).unwrap()));
            }
        }
        if i + 1 < n {
            text.push_str(&format!(" {} ", names[i]));
        }
    }
    let vals: Vec<Sym> = (0..used.len()).map(Sym::Var).collect();
    let (want, _) = model_with(values, prio);
    st.bump("cases");
    st.bump(&format!("mixed_chains_{kind}"));
    st.bump(["mixed_chains_shuffled_distinct_variables", "mixed_chains_repeated_variables", "mixed_chains_repeated_variables_and_literals"][flavour]);
    for path in ["flat", "flat_vec", "flat_iter", "flat_wo_vec", "wo_eval_compile_eval", "deep"] {
        let r = catch(|| match path {
            "flat" => FX::parse(&text).and_then(|e| e.eval(&vals)),
            "wo_eval_compile_eval" => FX::parse_wo_compile(&text).and_then(|mut e| {
                let _ = e.eval(&vals);
                e.compile();
                e.eval(&vals)
            }),
            "flat_vec" => FX::parse(&text).and_then(|e| e.eval_vec(vals.clone())),
            "flat_iter" => FX::parse(&text).and_then(|e| e.eval_iter(vals.clone().into_iter())),
            "flat_wo_vec" => FX::parse_wo_compile(&text).and_then(|e| e.eval_vec(vals.clone())),
            _ => DX::parse(&text).and_then(|e| e.eval(&vals)),
        });
        let problem = match r {
            Err(m) => Some(format!("panic: {m}")),
            Ok(Err(e)) => Some(format!("error: {}", e.msg())),
            Ok(Ok(v)) => {
                if v.has_hole() {
                    Some("a moved-out placeholder stands where an operand should be".to_string())
                } else if v != want {
                    Some("final value is not the chain reduced in priority order over the operands of the text".to_string())
                } else {
                    None
                }
            }
        };
        if let Some(p) = problem {
            let pr: Vec<String> = prio.iter().map(|p| p.to_string()).collect();
            st.violation(
                format!("mixed-chain|{path}|n={n}|{}|{}", pr.join(","), p.split(':').next().unwrap_or("")),
                n,
                json!({"kind": "mixed-chain", "path": path, "text": if text.len() < 400 { text.clone() } else { format!("{} ...", &text[..400]) }, "operands": n, "priorities": prio, "order_kind": kind, "problem": p}),
            );
            return;
        }
    }
}

fn permutations(n: usize, f: &mut dyn FnMut(&[usize])) {
    fn go(k: usize, a: &mut Vec<usize>, f: &mut dyn FnMut(&[usize])) {
        if k == a.len() {
            f(a);
            return;
        }
        for i in k..a.len() {
            a.swap(k, i);
            go(k + 1, a, f);
            a.swap(k, i);
        }
    }
    let mut a: Vec<usize> = (0..n).collect();
    go(0, &mut a, f);
}

/// structured priority patterns for a chain with `m` operators
fn structured(kind: usize, m: usize, rng: &mut Rng) -> (Vec<i64>, &'static str) {
    let mi = m as i64;
    match kind {
        0 => ((0..mi).collect(), "ascending"),
        1 => ((0..mi).rev().collect(), "descending"),
        2 => ((0..mi).map(|i| if i % 2 == 0 { i } else { 2 * mi - i }).collect(), "alternating"),
        3 => ((0..mi).map(|i| mi - (i - mi / 2).abs()).collect(), "inside_out"),
        4 => ((0..mi).map(|i| (i - mi / 2).abs()).collect(), "outside_in"),
        5 => ((0..m).map(|_| rng.below(5) as i64).collect(), "tie_heavy"),
        6 => ((0..m).map(|_| rng.below(100) as i64).collect(), "random_0_99"),
        7 => (vec![7; m], "all_equal"),
        _ => {
            let mut p: Vec<i64> = (0..mi).collect();
            rng.shuffle(&mut p);
            (p, "random_permutation")
        }
    }
}

/// drives the tracker implementations directly against a `Vec<bool>` shadow
fn tracker_direct(rng: &mut Rng, st: &mut Stats, rounds: usize) {
    fn shadow_prev(sh: &[bool], idx: usize) -> Option<usize> {
        (0..=idx).rev().position(|i| !sh[i])
    }
    fn shadow_next(sh: &[bool], idx: usize) -> Option<usize> {
        (idx + 1..sh.len()).position(|i| !sh[i]).map(|d| d + 1)
    }
    fn drive<N: NumberTracker + ?Sized>(t: &mut N, len: usize, rng: &mut Rng, st: &mut Stats, which: &str) {
        let mut sh = vec![false; len];
        let n_ops = len * 3;
        for _ in 0..n_ops {
            let idx = rng.below(len);
            let r = catch(|| match rng_op(idx, len) {
                _ => (t.get_previous(idx), t.get_next(idx)),
            });
            st.bump("tracker_queries");
            let (gp, gn) = match r {
                Ok(x) => x,
                Err(m) => {
                    st.violation(format!("tracker|{which}|panic"), 1, json!({"kind": "tracker", "which": which, "len": len, "problem": format!("panic {m}")}));
                    return;
                }
            };
            if let Some(want) = shadow_prev(&sh, idx) {
                if gp != want {
                    st.violation(format!("tracker|{which}|get_previous"), 1, json!({"kind": "tracker", "which": which, "len": len, "idx": idx, "got": gp, "want": want, "ignored": sh.iter().enumerate().filter(|x| *x.1).map(|x| x.0).collect::<Vec<_>>()}));
                    return;
                }
            }
            if let Some(want) = shadow_next(&sh, idx) {
                if gn != want {
                    st.violation(format!("tracker|{which}|get_next"), 1, json!({"kind": "tracker", "which": which, "len": len, "idx": idx, "got": gn, "want": want, "ignored": sh.iter().enumerate().filter(|x| *x.1).map(|x| x.0).collect::<Vec<_>>()}));
                    return;
                }
                // consume it sometimes (index 0 is never consumed in real use, nor here)
                if rng.chance(1, 2) {
                    let d = t.consume_next(idx);
                    if d != want {
                        st.violation(format!("tracker|{which}|consume_next"), 1, json!({"kind": "tracker", "which": which, "len": len, "idx": idx, "got": d, "want": want}));
                        return;
                    }
                    sh[idx + want] = true;
                }
            }
            if rng.chance(1, 6) {
                let j = 1 + rng.below(len - 1);
                t.ignore(j);
                sh[j] = true;
            }
        }
    }
    fn rng_op(_idx: usize, _len: usize) -> u8 {
        0
    }
    for _ in 0..rounds {
        let mut scalar = 0usize;
        let len = rng.range(2, 64);
        drive(&mut scalar, len, rng, st, "usize");
        let words = rng.range(1, 9);
        let mut v = vec![0usize; words];
        let len = rng.range((words - 1) * 64 + 2, words * 64);
        drive(v.as_mut_slice(), len, rng, st, "slice");
        st.bump("tracker_rounds");
    }
}

pub fn run(ctx: &Ctx) -> i32 {
    let max_exh = if ctx.is_quick() { 8 } else { 9 };
    let long_reps = ctx.n(2, 40);
    let tracker_rounds = ctx.n(60, 3000);
    let stats = run_workers(ctx, 14, |w, rng, st| {
        // (a) exhaustive permutations, split over workers by permutation index
        let mut idx = 0usize;
        for n in 2..=max_exh {
            permutations(n - 1, &mut |perm: &[usize]| {
                idx += 1;
                if idx % ctx.threads != w {
                    return;
                }
                // perm[k] = application rank of operator k  =>  priority = (n - rank)
                let prio: Vec<i64> = perm.iter().map(|r| (n - r) as i64).collect();
                st.bump("exhaustive_permutations");
                st.class(("perm", n, perm.to_vec()));
                chain_case(n, &prio, "exhaustive", st);
                if n >= 3 {
                    chain_case_mixed(n, &prio, "exhaustive", st);
                }
            });
        }
        // (b) structured and random orders around the word boundaries
        let lens: &[usize] = &[10, 17, 31, 32, 33, 34, 63, 64, 65, 66, 67, 127, 128, 129, 130, 191, 192, 193, 194, 255, 256, 257, 258, 500, 1000];
        let mut job = 0usize;
        for &n in lens {
            for kind in 0..9 {
                for rep in 0..long_reps {
                    job += 1;
                    if job % ctx.threads != w {
                        continue;
                    }
                    if n >= 500 && rep > 0 && ctx.is_quick() {
                        continue;
                    }
                    let (prio, name) = structured(kind, n - 1, rng);
                    st.class(("long", n, kind, rep));
                    if kind == 0 && rep == 0 {
                        // every so often a reduction on this thread is interrupted by a panicking operator
                        interrupted_reduction(n.min(200), st);
                    }
                    chain_case(n, &prio, name, st);
                    chain_case_mixed(n, &prio, name, st);
                }
            }
        }
        // (c) the tracker driven directly
        tracker_direct(rng, st, tracker_rounds);
        if w == 0 {
            st.sample(json!({"chain": "{v0000} o0q {v0001} o1q {v0002} o2q {v0003}", "priorities": [1, 3, 2], "expected_steps_op_left_right": model(4, &[1, 3, 2]).1}));
        }
    });
    let mut report = Report::new(
        "chains v0 o0 v1 ... whose per-operator priorities realise a chosen application order, over the term algebra; judged (a) on the final term, (b) on the reduction trace recorded by hook H1 in eval_binary (every step: nearest live operand left/right, nothing consumed twice, order imposed by the priorities, only operand 0 live at the end), for FlatEx (folded/unfolded), DeepEx and flat->deep; the same orders over chains whose operands are shuffled, repeated variables and literals, evaluated from a slice and through eval_vec / eval_iter (which fill the operand array themselves); all permutations of up to 8 (quick) / 9 (thorough) operands; structured (ascending, descending, alternating, inside-out, outside-in, tie-heavy, all-equal) and random orders at lengths straddling 32/64/128/192/256 and 500/1000 operands; (c) the NumberTracker implementations (usize and [usize]) driven directly with random query/consume/ignore sequences against a Vec<bool> shadow. distinct_nontrivial = distinct (length, order) pairs.",
    )
    .require("interrupted_reductions", 10)
    .require("exhaustive_permutations", 5000)
    .require("chains_gt64_operands", 50)
    .require("reduction_steps_observed", 10000)
    .require("tracker_queries", 10000);
    report.exhaustive = false;
    report.extra = json!({"exhaustive_subspace": format!("all application orders of chains with 2..={max_exh} operands")});
    report.assumptions.push("priorities below 1000 for parenthesis-free chains (no parenthesis level involved)".into());
    finish(ctx, stats, report)
}
