//! C15 Consuming evaluation agrees with borrowing evaluation.
use crate::core::{catch, finish, run_workers, share, Ctx, Report, Stats};
use crate::sym::{install, table_desc, Sym, Table};
use crate::tok::{clones, default_reached_op, operands_seen, reset_counters, Tok, FT};
use crate::tree::*;
use crate::treecase::{expect, used_ops_desc};
use exmex::Express;
use serde_json::json;

fn occurrences(t: &Tree, vars: &[String], out: &mut Vec<usize>) {
    match t {
        Tree::Var(n) => out[vars.iter().position(|v| v == n).unwrap()] += 1,
        Tree::Un(_, a) => occurrences(a, vars, out),
        Tree::Bin(_, a, b) => {
            occurrences(a, vars, out);
            occurrences(b, vars, out)
        }
        _ => {}
    }
}

fn values(n: usize) -> Vec<Tok> {
    (0..n).map(|i| Tok { term: Sym::Var(i), origin: Some(i) }).collect()
}

/// returns a description of the first problem
fn problem(tree: &Tree, table: &Table, text: &str, compiled: bool, st: Option<&mut Stats>) -> Option<String> {
    let ex = expect(tree, table);
    let n = ex.vars.len();
    let mut occ = vec![0usize; n];
    occurrences(tree, &ex.vars, &mut occ);
    let r = catch(|| -> Result<Option<String>, String> {
        let e = if compiled { FT::parse(text) } else { FT::parse_wo_compile(text) }.map_err(|e| format!("parse error: {}", e.msg()))?;
        if e.var_names() != ex.vars.as_slice() {
            return Ok(Some(format!("variables {:?}, expected {:?}", e.var_names(), ex.vars)));
        }
        // borrowing evaluation
        reset_counters(n);
        let vals = values(n);
        let borrowed = e.eval(&vals).map_err(|e| format!("eval error: {}", e.msg()))?;
        if default_reached_op() > 0 {
            return Ok(Some("eval: a default placeholder reached an operator".into()));
        }
        if ac_norm(&borrowed.term, &ex.comm) != ex.norm {
            return Ok(Some(format!("eval: value {:?}, expected (mod AC) {:?}", borrowed.term, ex.norm)));
        }
        for (which, f) in [("eval_vec", 0), ("eval_iter", 1)] {
            reset_counters(n);
            let vals = values(n);
            let got = if f == 0 { e.eval_vec(vals) } else { e.eval_iter(vals.into_iter()) }.map_err(|e| format!("{which} error: {}", e.msg()))?;
            if default_reached_op() > 0 {
                return Ok(Some(format!("{which}: a moved-out placeholder reached an operator")));
            }
            if got.term != borrowed.term {
                return Ok(Some(format!("{which}: value {:?} differs from eval's {:?}", got.term, borrowed.term)));
            }
            let cl = clones();
            for i in 0..n {
                if occ[i] == 1 && cl[i] != 0 {
                    return Ok(Some(format!("{which}: variable {} occurs once but was cloned {} time(s)", ex.vars[i], cl[i])));
                }
            }
            // wrong arity must be an error
            for len in [n + 1, n.saturating_sub(1)] {
                if len == n {
                    continue;
                }
                let vals = values(len);
                let r = if f == 0 { e.eval_vec(vals) } else { e.eval_iter(vals.into_iter()) };
                if r.is_ok() {
                    return Ok(Some(format!("{which} accepted {len} values for {n} variables")));
                }
            }
        }
        Ok(None)
    });
    if let Some(st) = st {
        st.add("single_occurrence_vars_checked_for_moves", occ.iter().filter(|o| **o == 1).count() as u64);
        st.add("repeated_vars", occ.iter().filter(|o| **o > 1).count() as u64);
        st.max("max_occurrences_of_one_var", occ.iter().copied().max().unwrap_or(0) as u64);
    }
    match r {
        Err(m) => Some(format!("panic: {m}")),
        Ok(Err(m)) => Some(m),
        Ok(Ok(p)) => p,
    }
}

/// the same on a small plain-data type (8 bytes, no drop glue) whose clones are observable: the
/// value of a variable that occurs exactly once is moved, whatever the data type looks like
fn small_type_problem(tree: &Tree, table: &Table, text: &str, compiled: bool) -> Option<String> {
    use crate::pt::{self, Pt, FP};
    let vars = tree.vars();
    let n = vars.len();
    let mut occ = vec![0usize; n];
    occurrences(tree, &vars, &mut occ);
    let r = catch(|| -> Result<Option<String>, String> {
        let e = if compiled { FP::parse(text) } else { FP::parse_wo_compile(text) }.map_err(|e| format!("parse error: {}", e.msg()))?;
        let values = |n: usize| (0..n).map(Pt::var).collect::<Vec<Pt>>();
        pt::reset_counters(n);
        let borrowed = e.eval(&values(n)).map_err(|e| format!("eval error: {}", e.msg()))?;
        if pt::hole_reached_op() > 0 {
            return Ok(Some("eval: a default placeholder reached an operator".into()));
        }
        for (which, f) in [("eval_vec", 0), ("eval_iter", 1)] {
            pt::reset_counters(n);
            let vals = values(n);
            let got = if f == 0 { e.eval_vec(vals) } else { e.eval_iter(vals.into_iter()) }.map_err(|e| format!("{which} error: {}", e.msg()))?;
            if pt::hole_reached_op() > 0 {
                return Ok(Some(format!("{which}: a moved-out placeholder reached an operator")));
            }
            if got.h != borrowed.h {
                return Ok(Some(format!("{which}: value differs from eval's")));
            }
            let cl = pt::clones();
            for i in 0..n {
                if occ[i] == 1 && cl[i] != 0 {
                    return Ok(Some(format!("{which}: variable {} occurs once but was cloned {} time(s) (data type of {} bytes without drop glue)", vars[i], cl[i], std::mem::size_of::<Pt>())));
                }
            }
        }
        Ok(None)
    });
    match r {
        Err(m) => Some(format!("panic: {m}")),
        Ok(Err(m)) => Some(m),
        Ok(Ok(p)) => p,
    }
}

/// A consuming evaluation that is interrupted by a panicking user operator (and survived by the
/// caller) leaves nothing behind: the next consuming evaluations on the thread move and clone as
/// always.
fn interrupted_consuming_eval(st: &mut Stats) {
    use crate::pt::{self, Pt, BOOM, FP};
    use crate::sym::{intern, OpSpec};
    let table: Table = vec![OpSpec::bin(intern("+"), 0, 0, false), OpSpec::bin(intern("*"), 1, 1, false), OpSpec::un(intern("f_1"), 63)];
    install(&table);
    st.bump("interrupted_consuming_evaluations");
    let r = catch(|| -> Option<String> {
        let plain = FP::parse("x+y").ok()?;
        let longer = FP::parse("a*b+c+d*e+f").ok()?;
        let check = |when: &str| -> Option<String> {
            for (e, n) in [(&plain, 2usize), (&longer, 6usize)] {
                for iter in [false, true] {
                    pt::reset_counters(n);
                    let vals: Vec<Pt> = (0..n).map(Pt::var).collect();
                    let want = e.eval(&vals).ok()?;
                    pt::reset_counters(n);
                    let got = if iter { e.eval_iter(vals.into_iter()) } else { e.eval_vec(vals) }.ok()?;
                    if got.h != want.h {
                        return Some(format!("{when}: consuming evaluation of {} differs from eval", e.unparse()));
                    }
                    if pt::clones().iter().any(|c| *c != 0) {
                        return Some(format!("{when}: consuming evaluation of {} cloned variables that occur once (clone counts {:?})", e.unparse(), pt::clones()));
                    }
                }
            }
            None
        };
        if let Some(p) = check("before any interrupted evaluation") {
            return Some(p);
        }
        for text in ["f_1(x)+y+y", "a*f_1(b)+c*c+d*e+e", "f_1(a)*b+b"] {
            let e = FP::parse(text).ok()?;
            let n = e.var_names().len();
            for iter in [false, true] {
                let mut vals: Vec<Pt> = (0..n).map(Pt::var).collect();
                let k = if text.starts_with("a*") { 1 } else { 0 };
                vals[k] = Pt { id: k as u32 + 1, h: BOOM };
                let r = std::panic::catch_unwind(std::panic::AssertUnwindSafe(|| if iter { e.eval_iter(vals.into_iter()) } else { e.eval_vec(vals) }));
                if r.is_ok() {
                    return Some(format!("the panicking operator in {text} did not panic"));
                }
            }
            if let Some(p) = check(&format!("after the consuming evaluation of {text} was interrupted by a panicking operator")) {
                return Some(p);
            }
        }
        None
    });
    let p = match r {
        Ok(p) => p,
        Err(m) => Some(format!("panic: {m}")),
    };
    if let Some(p) = p {
        st.violation(format!("interrupted-consuming-eval|{}", p.chars().take(60).collect::<String>()), p.len(), json!({"kind": "consuming-eval-after-interrupted-evaluation", "problem": p}));
    }
}

/// consuming evaluation of expressions produced by differentiation: their variable list keeps
/// variables that no longer occur, while others occur several times
fn derivative_case(rng: &mut crate::rng::Rng, st: &mut Stats) {
    use crate::sym::{intern, OpSpec};
    use exmex::prelude::*;
    let table: Table = vec![
        OpSpec::dual(intern("+"), 0, 0, true, 0),
        OpSpec::dual(intern("-"), 1, 1, false, 1),
        OpSpec::bin(intern("*"), 2, 2, true),
        OpSpec::bin(intern("/"), 3, 3, false),
        OpSpec::bin(intern("^"), 4, 4, false),
        OpSpec::un(intern("sin"), 5),
        OpSpec::un(intern("cos"), 6),
        OpSpec::un(intern("ln"), 7),
        OpSpec::un(intern("exp"), 8),
    ];
    install(&table);
    // these are expensive (conversion and differentiation of a 140-level nest): a bounded number per worker
    thread_local! {
        static MANY_DONE: std::cell::Cell<u32> = const { std::cell::Cell::new(0) };
    }
    let many = rng.chance(1, 8) && MANY_DONE.with(|c| c.get()) < 30;
    let (text, vars, wrt, order, shape) = if many {
        MANY_DONE.with(|c| c.set(c.get() + 1));
        // a derivative with far fewer nodes than variables, among them variables of high index:
        // the sum of 65..140 variables plus a product of three of them
        let m = rng.range(65, 140);
        let names: Vec<String> = (0..m).map(|k| format!("v{k:03}")).collect();
        let picks = [rng.below(m), m - 1 - rng.below(8), 64 + rng.below(m - 64)];
        let text = format!("{}+{}*{}*{}", names.join("+"), names[picks[0]], names[picks[1]], names[picks[2]]);
        st.bump("derivative_cases_with_65_to_140_variables");
        (text, names, picks[rng.below(3)], 1usize, format!("many{m}"))
    } else {
        let nvars = rng.range(1, 4);
        let gcfg = GenCfg { lit_num: 2, const_num: 0, un_num: 1, chain_num: 4, vars: (0..nvars).map(|k| ["x", "y", "z", "w"][k].to_string()).collect() };
        let size = rng.range(1, 7);
        let tree = gen_tree(rng, &table, size, &gcfg);
        let vars = tree.vars();
        if vars.is_empty() {
            return;
        }
        let wrt = rng.below(vars.len());
        (render_plain(&tree, &table), vars, wrt, rng.range(1, 2), tree.shape_key(&table))
    };
    st.bump("cases");
    st.bump("derivative_cases");
    st.class(("deriv", shape, wrt, order));
    let n = vars.len();
    let values = |n: usize| (0..n).map(|i| Tok { term: Sym::Var(i), origin: Some(i) }).collect::<Vec<_>>();
    let r = catch(|| -> Option<String> {
        let d = FT::parse(&text).ok()?.partial_nth(wrt, order).ok()?;
        reset_counters(n);
        let b = d.eval(&values(n)).ok()?;
        if default_reached_op() > 0 {
            return Some("eval: a default placeholder reached an operator".into());
        }
        for (which, f) in [("eval_vec", 0), ("eval_iter", 1)] {
            reset_counters(n);
            let got = if f == 0 { d.eval_vec(values(n)) } else { d.eval_iter(values(n).into_iter()) };
            let got = match got {
                Ok(g) => g,
                Err(e) => return Some(format!("{which} error: {}", e.msg())),
            };
            if default_reached_op() > 0 {
                return Some(format!("{which} on the derivative {}: a moved-out placeholder reached an operator", d.unparse()));
            }
            if got.term != b.term {
                return Some(format!("{which} on the derivative {}: value {:?} differs from eval's {:?}", d.unparse(), got.term, b.term));
            }
            // a variable that occurs exactly once in the derivative is moved
            let printed = d.unparse();
            let cl = clones();
            for (i, v) in vars.iter().enumerate() {
                if printed.matches(&format!("{{{v}}}")).count() == 1 && cl[i] != 0 {
                    return Some(format!("{which} on the derivative {printed}: variable {v} occurs once but was cloned {} time(s)", cl[i]));
                }
            }
        }
        None
    });
    let p = match r {
        Ok(p) => p,
        Err(m) => Some(format!("panic: {m}")),
    };
    if let Some(p) = p {
        st.violation(format!("derivative|{text}|d{}^{order}", vars[wrt]), text.len(), json!({"kind": "consuming-eval-of-derivative", "text": text, "wrt": vars[wrt], "order": order, "problem": p}));
    }
}

pub fn run(ctx: &Ctx) -> i32 {
    let n = ctx.n(120_000, 6_000_000);
    let stats = run_workers(ctx, 15, |w, rng, st| {
        let quota = share(n, w, ctx.threads);
        let mut table = gen_table(rng, &TableCfg::default());
        for i in 0..quota {
            if i % 16 == 0 {
                table = gen_table(rng, &TableCfg::default());
                install(&table);
            }
            // few variables, many leaves => repetition; many variables => single occurrences
            let nvars = rng.range(1, 20);
            let vars: Vec<String> = (0..nvars).map(|k| format!("v{k}")).collect();
            let gcfg = GenCfg { lit_num: rng.below(6), un_num: rng.below(3), chain_num: rng.below(9), vars, ..GenCfg::default() };
            let size = match rng.below(10) {
                0..=5 => rng.range(1, 12),
                6..=8 => rng.range(13, 45),
                _ => rng.range(46, 100),
            };
            let tree = gen_tree(rng, &table, size, &gcfg);
            let rcfg = RenderCfg::random(rng);
            let text = render(&tree, &table, rng, &rcfg);
            if i % 5 == 4 {
                derivative_case(rng, st);
                install(&table);
                continue;
            }
            if i % 512 == 100 {
                interrupted_consuming_eval(st);
                install(&table);
            }
            let compiled = rng.chance(1, 2);
            st.bump("cases");
            st.bump(if compiled { "cases_folded" } else { "cases_unfolded" });
            st.class((tree.shape_key(&table), compiled));
            if let Some(p) = problem(&tree, &table, &text, compiled, Some(st)) {
                if st.violations.len() < 6 {
                    let mut pred = |t: &Tree| problem(t, &table, &render_plain(t, &table), compiled, None).is_some();
                    let small = if pred(&tree) { shrink_tree(&tree, &mut pred, 300) } else { tree.clone() };
                    let stext = if small == tree { text.clone() } else { render_plain(&small, &table) };
                    let p = problem(&small, &table, &stext, compiled, None).unwrap_or(p);
                    st.violation(
                        format!("{}|{}|{}|{}", if compiled { "folded" } else { "unfolded" }, p.split(':').next().unwrap_or(""), stext, used_ops_desc(&small, &table)),
                        stext.len(),
                        json!({"kind": "consuming-eval", "text": stext, "table": table_desc(&table), "folded": compiled, "problem": p}),
                    );
                } else {
                    st.bump("violations_raw");
                }
            }
            if i % 3 == 1 {
                st.bump("cases_on_the_small_plain_data_type");
                if let Some(p) = small_type_problem(&tree, &table, &text, compiled) {
                    if st.violations.len() < 6 {
                        let mut pred = |t: &Tree| small_type_problem(t, &table, &render_plain(t, &table), compiled).is_some();
                        let small = if pred(&tree) { shrink_tree(&tree, &mut pred, 300) } else { tree.clone() };
                        let stext = if small == tree { text.clone() } else { render_plain(&small, &table) };
                        let p = small_type_problem(&small, &table, &stext, compiled).unwrap_or(p);
                        st.violation(
                            format!("small-type|{}|{}|{}|{}", if compiled { "folded" } else { "unfolded" }, p.split(':').next().unwrap_or(""), stext, used_ops_desc(&small, &table)),
                            stext.len(),
                            json!({"kind": "consuming-eval-small-plain-data-type", "text": stext, "table": table_desc(&table), "folded": compiled, "problem": p}),
                        );
                    } else {
                        st.bump("violations_raw");
                    }
                }
            }
            if st.samples.len() < st.max_samples && size > 3 && size < 9 {
                st.sample(json!({"text": text, "folded": compiled}));
            }
        }
        st.add("operands_observed_by_operators", operands_seen());
    });
    let report = Report::new(
        "random trees (1..100 operands) over 1..20 variables with arbitrary repetition, random tables and spellings, folded and unfolded FlatEx over the tracking value type Tok: eval_vec and eval_iter must return the identical term as eval (which must equal the reference tree mod AC), no default/moved-out placeholder may reach an operator (every operand an operator receives is inspected), the clone counter of each variable occurring exactly once must be 0 after a consuming evaluation, wrong arity must be an error. Every third case is repeated on Pt, an 8-byte plain-data type without drop glue whose clones are counted (no shortcut for 'cheap' types may clone a variable that occurs once). Every fifth case differentiates a parsed expression first (Tok is also a differentiable data type), because a derivative keeps variables that no longer occur while others occur several times. distinct_nontrivial = distinct (tree shape, table class, folded?) classes.",
    )
    .assume("nothing is demanded about how many clones a repeated variable needs")
    .require("single_occurrence_vars_checked_for_moves", 1000)
    .require("repeated_vars", 1000)
    .require("operands_observed_by_operators", 10000)
    .require("derivative_cases", 1000)
    .require("interrupted_consuming_evaluations", 50)
    .require("derivative_cases_with_65_to_140_variables", 200)
    .require("cases_on_the_small_plain_data_type", 10000);
    finish(ctx, stats, report)
}
