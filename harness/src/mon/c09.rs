//! C09 Differentiation bookkeeping: variables, indices, order and repetition.
use crate::core::{catch, finish, run_workers, share, Ctx, Report, Stats};
use crate::diffutil::*;
use crate::num::{Rat, DR, FR, POISON};
use crate::rng::Rng;
use crate::tree::*;
use exmex::prelude::*;
use exmex::verif::partial_calls;
use exmex::{DeepEx, MissingOpMode};
use serde_json::json;

#[derive(Clone, Debug)]
enum How {
    /// repeated `partial`
    Sequential,
    /// one `partial_iter`
    Iter,
    /// `partial_nth` blocks (consecutive equal indices grouped)
    NthBlocks,
    /// `partial_iter_relaxed` with a mode
    IterRelaxed(u8),
}

fn mode(m: u8) -> MissingOpMode {
    match m {
        0 => MissingOpMode::Error,
        1 => MissingOpMode::PerOperand,
        _ => MissingOpMode::None,
    }
}

fn blocks(seq: &[usize]) -> Vec<(usize, usize)> {
    let mut out: Vec<(usize, usize)> = vec![];
    for &i in seq {
        match out.last_mut() {
            Some((j, k)) if *j == i => *k += 1,
            _ => out.push((i, 1)),
        }
    }
    out
}

macro_rules! differentiate {
    ($e:expr, $seq:expr, $how:expr) => {{
        let seq: &[usize] = $seq;
        match $how {
            How::Sequential => {
                let mut cur = Ok($e);
                for &i in seq {
                    cur = cur.and_then(|c| c.partial(i));
                }
                cur
            }
            How::Iter => $e.partial_iter(seq.iter().copied()),
            How::NthBlocks => {
                let mut cur = Ok($e);
                for (i, k) in blocks(seq) {
                    cur = cur.and_then(|c| c.partial_nth(i, k));
                }
                cur
            }
            How::IterRelaxed(m) => $e.partial_iter_relaxed(seq.iter().copied(), mode(*m)),
        }
    }};
}

fn close_pair(a: f64, b: f64, mag: f64) -> bool {
    (a - b).abs() <= 1e-7 * a.abs().max(b.abs()) + 1e-8 * mag.max(1e-3)
}

/// one case on f64 (`exact == false`) or on exact rationals
fn case(rng: &mut Rng, st: &mut Stats, exact: bool) {
    let table = if exact { sub_table(&["+", "-", "*", "/", "^"], true) } else { diff_table(rng, false) };
    let len = rng.below(5);
    // derivative expressions swell quickly with the order: smaller trees for longer sequences
    let max_leaves = [7, 7, 5, 3, 2][len];
    let tree = if exact { gen_rat_tree(rng, &table, max_leaves) } else { gen_diff_tree(rng, &table, max_leaves) };
    let vars = tree.vars();
    let n = vars.len();
    let text = render(&tree, &table, rng, &RenderCfg::plain());
    let with_bad = rng.chance(1, 3);
    let mut seq: Vec<usize> = (0..len).map(|_| if n == 0 { 0 } else { rng.below(n) }).collect();
    if with_bad || n == 0 {
        if seq.is_empty() {
            seq.push(0);
        }
        let pos = rng.below(seq.len());
        // out-of-range values of every size: just beyond the list, around the machine-word
        // width, congruent to a valid index modulo 64 / 2^32, huge
        seq[pos] = match rng.below(10) {
            0..=3 => n + rng.below(3),
            4 => 63 + rng.below(3),
            5 => 64 + if n > 0 { rng.below(n) } else { 0 },
            6 => 128 + if n > 0 { rng.below(n) } else { 0 },
            7 => (1usize << 32) + if n > 0 { rng.below(n) } else { 0 },
            8 => usize::MAX - rng.below(2),
            _ => n + 64 * rng.range(1, 3),
        }
        .max(n);
    }
    let has_bad = seq.iter().any(|i| *i >= n);
    let deep = rng.chance(1, 2);
    st.bump("cases");
    st.class((exact, deep, seq.clone(), tree.shape_key(&table)));
    st.bump(&format!("sequences_of_length_{}", seq.len()));
    let hows = [How::Sequential, How::Iter, How::NthBlocks, How::IterRelaxed(rng.below(3) as u8)];

    // values of every way of differentiating at two points; None = Err
    let pts_f: Vec<Vec<f64>> = (0..2).map(|_| sample_point(rng, n)).collect();
    let pts_r: Vec<Vec<Rat>> = (0..2).map(|_| rat_point(rng, n)).collect();
    type Out = Result<(Vec<String>, Vec<f64>, Vec<Rat>), String>;
    let run = |how: &How| -> Result<(Out, usize), String> {
        catch(|| {
            let before = partial_calls();
            let out: Out = if exact {
                let r = if deep {
                    DR::parse(&text).and_then(|e| differentiate!(e, &seq, how)).and_then(FR::from_deepex)
                } else {
                    FR::parse(&text).and_then(|e| differentiate!(e, &seq, how))
                };
                r.map(|d| (d.var_names().to_vec(), vec![], pts_r.iter().map(|p| d.eval(p).unwrap_or(POISON)).collect())).map_err(|e| e.msg().to_string())
            } else {
                let r = if deep {
                    DeepEx::<f64>::parse(&text).and_then(|e| differentiate!(e, &seq, how)).and_then(FlatEx::<f64>::from_deepex)
                } else {
                    FlatEx::<f64>::parse(&text).and_then(|e| differentiate!(e, &seq, how))
                };
                r.map(|d| (d.var_names().to_vec(), pts_f.iter().map(|p| d.eval(p).unwrap_or(f64::NAN)).collect(), vec![])).map_err(|e| e.msg().to_string())
            };
            (out, partial_calls() - before)
        })
    };
    let detail = |what: &str, how: &How| json!({"kind": "differentiation-bookkeeping", "text": text, "variables": vars, "index_sequence": seq, "form": if deep {"DeepEx"} else {"FlatEx"}, "exact": exact, "how": format!("{how:?}"), "problem": what});
    let mut results: Vec<(How, (Vec<f64>, Vec<Rat>))> = vec![];
    for how in &hows {
        let (out, work) = match run(how) {
            Ok(x) => x,
            Err(m) => {
                st.violation(format!("panic|{text}|{seq:?}"), text.len(), detail(&format!("panic: {m}"), how));
                return;
            }
        };
        if has_bad {
            st.bump("out_of_range_sequences");
            // sequential single derivatives legitimately work until the bad index is reached;
            // for the iterated forms the whole sequence is checked before any work
            let first_bad = seq.iter().position(|i| *i >= n).unwrap();
            let allowed_work_free = match how {
                How::Sequential => false,
                How::NthBlocks => blocks(&seq).iter().position(|(i, _)| *i >= n) == Some(0),
                _ => true,
            };
            match out {
                Ok(_) => {
                    st.violation(format!("accepted-bad-index|{how:?}|n={n}|{seq:?}"), text.len(), detail("an index not smaller than the number of variables was accepted", how));
                    return;
                }
                Err(m) => {
                    if crate::core::is_zero_pow_zero(&m) {
                        st.bump("zero_to_the_zero_errors_not_judged");
                        return;
                    }
                    if (allowed_work_free || first_bad == 0) && work != 0 {
                        st.violation(format!("work-before-index-error|{how:?}|n={n}|{seq:?}"), text.len(), detail(&format!("{work} derivative computations were started although the index sequence is invalid"), how));
                        return;
                    }
                    st.bump("index_errors_before_any_work");
                }
            }
            continue;
        }
        match out {
            Err(m) => {
                if crate::core::is_zero_pow_zero(&m) {
                    st.bump("zero_to_the_zero_errors_not_judged");
                    return;
                }
                st.violation(format!("error|{how:?}|{text}|{seq:?}"), text.len(), detail(&format!("valid index sequence rejected: {m}"), how));
                return;
            }
            Ok((names, vf, vr)) => {
                if names != vars {
                    st.violation(format!("vars|{how:?}|{text}|{seq:?}"), text.len(), detail(&format!("derivative lists {names:?}, antiderivative {vars:?}"), how));
                    return;
                }
                results.push((how.clone(), (vf, vr)));
            }
        }
    }
    if has_bad || results.is_empty() {
        return;
    }
    // all ways of differentiating along the same sequence agree
    // reference magnitude for the f64 tolerance: the tree itself at these points
    let mags: Vec<Option<f64>> = pts_f
        .iter()
        .map(|p| if n == 0 || exact { Some(1.0) } else { ref_d2(&tree, &table, &vars, p, seq.first().copied().unwrap_or(0).min(n - 1), seq.get(1).copied().unwrap_or(0).min(n - 1)).map(|x| x.1) })
        .collect();
    let base = results[0].1.clone();
    let base = &base;
    for (how, (vf, vr)) in &results[1..] {
        st.bump("equivalences_compared");
        for k in 0..2 {
            let bad = if exact {
                !base.1[k].is_poison() && !vr[k].is_poison() && base.1[k] != vr[k]
            } else {
                match mags[k] {
                    Some(m) if m < 1e4 && base.0[k].is_finite() && vf[k].is_finite() && base.0[k].abs() < 1e6 => !close_pair(base.0[k], vf[k], m),
                    _ => false,
                }
            };
            if bad {
                st.violation(
                    format!("differs|{how:?}|{text}|{seq:?}"),
                    text.len(),
                    detail(&format!("value {} vs sequential single derivatives {}", if exact { format!("{:?}", vr[k]) } else { vf[k].to_string() }, if exact { format!("{:?}", base.1[k]) } else { base.0[k].to_string() }), how),
                );
                return;
            }
        }
    }
    if seq.is_empty() {
        st.bump("order_zero_checked");
        if n > 0 {
            // partial_nth with order zero
            let idx = rng.below(n);
            let r = catch(|| {
                if exact {
                    FR::parse(&text).and_then(|e| e.partial_nth(idx, 0)).map(|d| (vec![], pts_r.iter().map(|p| d.eval(p).unwrap_or(POISON)).collect::<Vec<Rat>>()))
                } else {
                    FlatEx::<f64>::parse(&text).and_then(|e| e.partial_nth(idx, 0)).map(|d| (pts_f.iter().map(|p| d.eval(p).unwrap_or(f64::NAN)).collect::<Vec<f64>>(), vec![]))
                }
            });
            match r {
                Ok(Ok(v)) => results.push((How::NthBlocks, v)),
                Ok(Err(e)) => {
                    st.violation(format!("nth-zero-error|{text}"), text.len(), detail(&format!("partial_nth(_, 0) failed: {}", e.msg()), &How::NthBlocks));
                    return;
                }
                Err(m) => {
                    st.violation(format!("nth-zero-panic|{text}"), text.len(), detail(&format!("partial_nth(_, 0) panicked: {m}"), &How::NthBlocks));
                    return;
                }
            }
        }
        // order zero is the identity
        let orig: Result<(Vec<f64>, Vec<Rat>), String> = catch(|| {
            if exact {
                let e = FR::parse(&text).unwrap();
                (vec![], pts_r.iter().map(|p| e.eval(p).unwrap_or(POISON)).collect())
            } else {
                let e = FlatEx::<f64>::parse(&text).unwrap();
                (pts_f.iter().map(|p| e.eval(p).unwrap_or(f64::NAN)).collect(), vec![])
            }
        });
        if let Ok((of, or)) = orig {
            for (how, (vf, vr)) in &results {
                for k in 0..2 {
                    let bad = if exact { !or[k].is_poison() && !vr[k].is_poison() && or[k] != vr[k] } else { of[k].is_finite() && vf[k].is_finite() && of[k].abs() < 1e6 && !close_pair(of[k], vf[k], of[k].abs()) };
                    if bad {
                        st.violation(format!("order-zero|{how:?}|{text}"), text.len(), detail("the derivative of order zero differs from the expression", how));
                        return;
                    }
                }
            }
        }
    }
    // mixed partials commute
    if seq.len() == 2 && seq[0] != seq[1] {
        st.bump("mixed_partials_compared");
        let rev = vec![seq[1], seq[0]];
        let r = catch(|| {
            if exact {
                FR::parse(&text).and_then(|e| differentiate!(e, &rev, &How::Sequential)).map(|d| (vec![], pts_r.iter().map(|p| d.eval(p).unwrap_or(POISON)).collect::<Vec<Rat>>()))
            } else {
                FlatEx::<f64>::parse(&text).and_then(|e| differentiate!(e, &rev, &How::Sequential)).map(|d| (pts_f.iter().map(|p| d.eval(p).unwrap_or(f64::NAN)).collect::<Vec<f64>>(), vec![]))
            }
        });
        if let Ok(Ok((vf, vr))) = r {
            for k in 0..2 {
                let bad = if exact {
                    !base.1[k].is_poison() && !vr[k].is_poison() && base.1[k] != vr[k]
                } else {
                    match ref_d2(&tree, &table, &vars, &pts_f[k], seq[0], seq[1]) {
                        Some((want, m)) => {
                            st.bump("mixed_partials_points_with_reference");
                            !close(vf[k], want, m, 1e-7) || !close(base.0[k], want, m, 1e-7)
                        }
                        None => false,
                    }
                };
                if bad {
                    st.violation(format!("mixed|{text}|{seq:?}"), text.len(), detail("mixed partial derivatives differ between the two orders (or from the true value)", &How::Sequential));
                    return;
                }
            }
        }
    }
    if st.samples.len() < st.max_samples && seq.len() >= 2 && text.len() < 30 {
        st.sample(json!({"text": text, "variables": vars, "index_sequence": seq, "form": if deep {"DeepEx"} else {"FlatEx"}, "exact": exact}));
    }
}

/// Relaxed differentiation (operators without a rule are differentiated per operand or kept as
/// they are): repeated, n-th and iterated differentiation in the same mode are the same
/// computation, whatever the expression contains.
fn relaxed_case(rng: &mut Rng, st: &mut Stats) {
    let table = diff_table(rng, true);
    let len = rng.range(1, 3);
    let tree = gen_diff_tree(rng, &table, [6, 6, 4, 3][len]);
    let vars = tree.vars();
    let n = vars.len();
    if n == 0 {
        return;
    }
    let text = render(&tree, &table, rng, &RenderCfg::plain());
    let m = rng.range(1, 2) as u8;
    // repeated indices are likely, so that partial_nth blocks of order 2 and 3 occur
    let first = rng.below(n);
    let seq: Vec<usize> = (0..len).map(|_| if rng.chance(1, 2) { first } else { rng.below(n) }).collect();
    let deep = rng.chance(1, 2);
    let nondiff = nondiff_over_variable(&tree, &table);
    st.bump("cases");
    st.bump("relaxed_mode_cases");
    if nondiff {
        st.bump("relaxed_mode_cases_with_rule_less_operator_over_variable");
    }
    st.class(("relaxed", m, deep, seq.clone(), tree.shape_key(&table)));
    let pts: Vec<Vec<f64>> = (0..2).map(|_| sample_point(rng, n)).collect();
    let run = |way: usize| -> Result<Result<Vec<f64>, String>, String> {
        catch(|| {
            macro_rules! go {
                ($e:expr) => {{
                    match way {
                        0 => {
                            let mut cur = Ok($e);
                            for &i in &seq {
                                cur = cur.and_then(|c| c.partial_relaxed(i, mode(m)));
                            }
                            cur
                        }
                        1 => $e.partial_iter_relaxed(seq.iter().copied(), mode(m)),
                        _ => {
                            let mut cur = Ok($e);
                            for (i, k) in blocks(&seq) {
                                cur = cur.and_then(|c| c.partial_nth_relaxed(i, k, mode(m)));
                            }
                            cur
                        }
                    }
                }};
            }
            let r = if deep { DeepEx::<f64>::parse(&text).and_then(|e| go!(e)).and_then(FlatEx::<f64>::from_deepex) } else { FlatEx::<f64>::parse(&text).and_then(|e| go!(e)) };
            r.map(|d| pts.iter().map(|p| d.eval(p).unwrap_or(f64::NAN)).collect()).map_err(|e| e.msg().to_string())
        })
    };
    let names = ["repeated partial_relaxed", "partial_iter_relaxed", "partial_nth_relaxed blocks"];
    let detail = |what: &str, way: usize| json!({"kind": "relaxed-differentiation-bookkeeping", "text": text, "variables": vars, "index_sequence": seq, "mode": format!("{:?}", mode(m)), "form": if deep {"DeepEx"} else {"FlatEx"}, "how": names[way], "problem": what});
    // the modes concern binary operators; a unary operator without a rule is an error in every
    // mode - then in all three ways alike
    let mut vals: Vec<Vec<f64>> = vec![];
    let mut errors: Vec<Option<String>> = vec![];
    for way in 0..3 {
        match run(way) {
            Err(p) => {
                st.violation(format!("relaxed-panic|{text}|{seq:?}"), text.len(), detail(&format!("panic: {p}"), way));
                return;
            }
            Ok(Err(e)) => {
                if crate::core::is_zero_pow_zero(&e) {
                    st.bump("zero_to_the_zero_errors_not_judged");
                    return;
                }
                errors.push(Some(e));
                vals.push(vec![]);
            }
            Ok(Ok(v)) => {
                errors.push(None);
                vals.push(v);
            }
        }
    }
    if errors.iter().any(|e| e.is_some()) {
        if let Some(way) = (0..3).find(|w| errors[*w].is_none()) {
            let bad = (0..3).find(|w| errors[*w].is_some()).unwrap();
            st.violation(
                format!("relaxed-error-differs|{text}|{seq:?}|{m}"),
                text.len(),
                detail(&format!("{} returns an expression, {} the error: {}", names[way], names[bad], errors[bad].clone().unwrap()), way),
            );
        } else {
            st.bump("relaxed_mode_errors_in_all_three_ways");
        }
        return;
    }
    for way in 1..3 {
        for k in 0..2 {
            let (a, b) = (vals[0][k], vals[way][k]);
            if a.is_finite() && b.is_finite() && a.abs() < 1e6 {
                st.bump("relaxed_mode_equivalences_compared");
                if !close_pair(a, b, a.abs().max(b.abs())) {
                    st.violation(
                        format!("relaxed-differs|{}|{text}|{seq:?}|{m}", names[way]),
                        text.len(),
                        detail(&format!("value {b} vs repeated single relaxed derivatives {a} at {:?}", pts[k]), way),
                    );
                    return;
                }
            }
        }
    }
}

/// index errors on long texts with multi-byte variable names (the error is reported, whatever the
/// text looks like, and before any work)
fn long_text_index_case(rng: &mut Rng, st: &mut Stats) {
    const NAMES: &[&str] = &["α", "β", "γδ", "x", "λ1", "ωmega", "y", "Δt", "θ", "π_r", "é", "ξ"];
    let k = rng.range(2, 6);
    let mut names: Vec<&str> = NAMES.to_vec();
    rng.shuffle(&mut names);
    names.truncate(k);
    let terms = rng.range(6, 30);
    let mut text = String::new();
    if rng.chance(1, 2) {
        text.push_str(&format!("{}+", rng.range(1, 120)));
    }
    for t in 0..terms {
        if t > 0 {
            text.push_str(["+", "-", "*", "/"][rng.below(4)]);
        }
        let v = *rng.pick(&names);
        match rng.below(5) {
            0 => text.push_str(&format!("sin({v})")),
            1 => text.push_str(&format!("{v}^{}", rng.range(2, 3))),
            2 => text.push_str(&format!("exp({v}*{})", *rng.pick(&names))),
            3 => text.push_str(&format!("{}", rng.range(1, 9))),
            _ => text.push_str(v),
        }
    }
    let r = catch(|| FlatEx::<f64>::parse(&text).map(|e| e.var_names().len()));
    let n = match r {
        Ok(Ok(n)) => n,
        _ => return,
    };
    let bad = n + [0, 0, 1, 64, 1usize << 32][rng.below(5)];
    let deep = rng.chance(1, 2);
    st.bump("cases");
    st.bump("long_non_ascii_texts_with_invalid_index");
    st.class(("long-index", deep, text.len() / 8, n));
    for way in 0..4 {
        let r = catch(|| {
            let before = partial_calls();
            macro_rules! go {
                ($e:expr) => {
                    match way {
                        0 => $e.partial(bad).map(|_| ()),
                        1 => $e.partial_nth(bad, 2).map(|_| ()),
                        2 => $e.partial_iter([0, bad].into_iter()).map(|_| ()),
                        _ => $e.partial_iter_relaxed([bad].into_iter(), MissingOpMode::None).map(|_| ()),
                    }
                };
            }
            let r = if deep { DeepEx::<f64>::parse(&text).and_then(|e| go!(e)) } else { FlatEx::<f64>::parse(&text).and_then(|e| go!(e)) };
            (r.is_ok(), partial_calls() - before)
        });
        let how = ["partial", "partial_nth", "partial_iter", "partial_iter_relaxed"][way];
        let problem = match r {
            Err(p) => Some(format!("panic instead of an error: {p}")),
            Ok((true, _)) => Some("an index not smaller than the number of variables was accepted".to_string()),
            Ok((false, w)) if w != 0 => Some(format!("{w} derivative computations were started although the index is invalid")),
            _ => None,
        };
        if let Some(p) = problem {
            st.violation(
                format!("long-index|{how}|{}|{}", p.split(':').next().unwrap_or(""), text.len().min(50)),
                text.len(),
                json!({"kind": "index-error-on-long-text", "text": text, "variables": n, "index": bad, "form": if deep {"DeepEx"} else {"FlatEx"}, "how": how, "problem": p}),
            );
            return;
        }
        st.bump("index_errors_before_any_work");
    }
}

pub fn run(ctx: &Ctx) -> i32 {
    let n = ctx.n(40_000, 2_000_000);
    let stats = run_workers(ctx, 9, |w, rng, st| {
        let quota = share(n, w, ctx.threads);
        for i in 0..quota {
            match i % 8 {
                5 => relaxed_case(rng, st),
                7 => long_text_index_case(rng, st),
                _ => case(rng, st, i % 3 == 0),
            }
        }
    });
    let report = Report::new(
        "random differentiable trees (f64: + - * / ^, 18 elementary functions; exact rationals: + - * / integer powers) x index sequences of length 0..4 with entries in 0..n+2 (a third of the sequences contain an out-of-range entry at a random position) x {FlatEx, DeepEx} x four ways of differentiating (repeated partial, partial_iter, partial_nth blocks, partial_iter_relaxed with a random MissingOpMode). Oracle: any out-of-range entry => Err, and for the iterated forms the hook counter of started derivative computations (H2) is unchanged; otherwise identical variable list, all four ways agree at random points (exactly over rationals, 1e-7 relative over f64 at guarded points), order zero is the identity, mixed partials agree in both orders and with the nested-dual reference. Relaxed modes (PerOperand, None) on trees that contain operators without a derivative rule: repeated partial_relaxed, partial_iter_relaxed and partial_nth_relaxed blocks agree. Invalid indices on long texts (up to 30 terms) with multi-byte variable names are errors before any work through every entry point. distinct_nontrivial = distinct (exactness, form, index sequence, tree shape) classes.",
    )
    .assume("repeated single `partial` calls legitimately do work before they reach an invalid index; 'before any work is done' is judged for partial_iter / partial_nth / relaxed variants and for sequences whose first entry is invalid")
    .require("index_errors_before_any_work", 1000)
    .require("equivalences_compared", 10000)
    .require("order_zero_checked", 500)
    .require("mixed_partials_compared", 500)
    .require("sequences_of_length_4", 1000)
    .require("relaxed_mode_equivalences_compared", 3000)
    .require("relaxed_mode_cases_with_rule_less_operator_over_variable", 500)
    .require("long_non_ascii_texts_with_invalid_index", 1000);
    finish(ctx, stats, report)
}
