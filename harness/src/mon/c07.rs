//! C07 Malformed expressions are reported as errors, never evaluated.
use crate::core::{catch, finish, run_workers, share, Ctx, Report};
use crate::rng::Rng;
use crate::stdtables::{float_table, val_table};
use crate::sym::{install, table_desc, Table, DX, FX};
use crate::tree::*;
use exmex::{DeepEx, Express, FlatEx, ValMatcher, ValOpsFactory, Val};
use serde_json::json;

/// characters that are neither number, operator, variable nor bracket in any table used here
/// (nor part of the literal syntax of the term algebra)
pub const ILLEGAL: &[&str] = &["$", "?", "@", "\\", "~", "'", "\"", "`", "§"];

#[derive(Clone, Copy, PartialEq, Eq, Debug)]
pub enum Family {
    Sym,
    Float,
    Val,
}

/// names of the parser entry points that accept `text` (all must reject a malformed text)
fn accepted_by(text: &str, fam: Family) -> Vec<String> {
    let mut acc = vec![];
    let mut note = |name: &str, r: Result<bool, String>| match r {
        Ok(false) => {}
        Ok(true) => acc.push(name.to_string()),
        Err(m) => acc.push(format!("{name} PANIC {m}")),
    };
    match fam {
        Family::Sym => {
            note("FlatEx::parse", catch(|| FX::parse(text).is_ok()));
            note("FlatEx::parse_wo_compile", catch(|| FX::parse_wo_compile(text).is_ok()));
            note("DeepEx::parse", catch(|| DX::parse(text).is_ok()));
            note("Deserialize for FlatEx", catch(|| serde_json::from_str::<FX>(&serde_json::to_string(text).unwrap()).is_ok()));
        }
        Family::Float => {
            note("FlatEx::<f64>::parse", catch(|| FlatEx::<f64>::parse(text).is_ok()));
            note("FlatEx::<f64>::parse_wo_compile", catch(|| FlatEx::<f64>::parse_wo_compile(text).is_ok()));
            note("DeepEx::<f64>::parse", catch(|| DeepEx::<f64>::parse(text).is_ok()));
            note("exmex::parse::<f32>", catch(|| exmex::parse::<f32>(text).is_ok()));
            note("eval_str::<f64>", catch(|| exmex::eval_str::<f64>(text).is_ok()));
            note("eval_str::<f32>", catch(|| exmex::eval_str::<f32>(text).is_ok()));
            note("Deserialize for FlatEx::<f64>", catch(|| serde_json::from_str::<FlatEx<f64>>(&serde_json::to_string(text).unwrap()).is_ok()));
            note("Deserialize for FlatEx::<f32>", catch(|| serde_json::from_str::<FlatEx<f32>>(&serde_json::to_string(text).unwrap()).is_ok()));
        }
        Family::Val => {
            note("parse_val::<i32,f64>", catch(|| exmex::parse_val::<i32, f64>(text).is_ok()));
            note("parse_val::<i64,f32>", catch(|| exmex::parse_val::<i64, f32>(text).is_ok()));
            note("FlatExVal::parse_wo_compile", catch(|| FlatEx::<Val<i32, f64>, ValOpsFactory<i32, f64>, ValMatcher>::parse_wo_compile(text).is_ok()));
            note("DeepEx::<Val>::parse", catch(|| DeepEx::<Val<i32, f64>, ValOpsFactory<i32, f64>, ValMatcher>::parse(text).is_ok()));
            note("Deserialize for FlatExVal", catch(|| serde_json::from_str::<exmex::FlatExVal<i32, f64>>(&serde_json::to_string(text).unwrap()).is_ok()));
        }
    }
    acc
}

fn join_plain(toks: &[Tok], table: &Table) -> String {
    let mut rng = Rng::new(0, 0);
    join_tokens(toks, table, &mut rng, &RenderCfg::plain())
}

/// all single-point damages of a rendered token list; (kind, damaged text)
pub fn damages(toks: &[Tok], table: &Table, text: &str, rng: &mut Rng) -> Vec<(String, String)> {
    let mut out: Vec<(String, String)> = vec![];
    // 1. delete one parenthesis (token level)
    for (i, t) in toks.iter().enumerate() {
        if matches!(t.kind, TK::Open | TK::Close) {
            let mut v = toks.to_vec();
            v.remove(i);
            out.push((format!("delete '{}'", t.text), join_plain(&v, table)));
        }
    }
    // 2./5. insert one parenthesis / one illegal character at any character position outside braces
    let mut outside = vec![];
    let mut depth = 0;
    for (i, c) in text.char_indices() {
        if depth == 0 {
            outside.push(i);
        }
        if c == '{' {
            depth += 1;
        }
        if c == '}' {
            depth -= 1;
        }
    }
    outside.push(text.len());
    for &i in &outside {
        for ins in ["(", ")"] {
            let mut t = text.to_string();
            t.insert_str(i, ins);
            out.push((format!("insert '{ins}'"), t));
        }
        let ill = *rng.pick(ILLEGAL);
        let mut t = text.to_string();
        t.insert_str(i, ill);
        out.push(("insert illegal character".to_string(), t));
    }
    // 3. append a binary operator
    for o in table.iter().filter(|o| o.bin.is_some()) {
        out.push((format!("append binary operator{}", if o.un.is_some() { " (dual)" } else { "" }), format!("{text} {}", o.name)));
        out.push(("append binary operator + space".to_string(), format!("{text} {} ", o.name)));
    }
    // 4. an extra operand directly beside an existing operand (a primary token)
    for (i, t) in toks.iter().enumerate() {
        if !t.is_primary() {
            continue;
        }
        for (what, extra) in [("number", "7"), ("variable", "q9"), ("braced variable", "{q q}"), ("parenthesised operand", "(7)")] {
            for right in [false, true] {
                let before = join_plain(&toks[..if right { i + 1 } else { i }], table);
                let after = join_plain(&toks[if right { i + 1 } else { i }..], table);
                out.push((format!("extra {what} {} an operand", if right { "right of" } else { "left of" }), format!("{before} {extra} {after}")));
            }
        }
    }
    out
}

/// an extra operand glued to an existing one without any separator (shipped tables): a name
/// directly behind a number (`1e5` is the number 1 and the variable e5, `2.5E1`, `4x`), a number
/// directly in front of a name or a group (`7x`, `7(x)`)
fn glued_damages(toks: &[Tok], table: &Table) -> Vec<(String, String)> {
    let mut out = vec![];
    for (i, t) in toks.iter().enumerate() {
        let before = join_plain(&toks[..i], table);
        let after = join_plain(&toks[i + 1..], table);
        let plain_number = t.kind == TK::Num && t.text.chars().all(|c| c.is_ascii_digit() || c == '.');
        if plain_number {
            for name in ["e5", "E1", "e", "x", "e05", "E"] {
                out.push(("extra variable glued to the right of a number".to_string(), format!("{before} {}{name} {after}", t.text).trim().to_string()));
            }
        }
        if matches!(t.kind, TK::Var | TK::BVar) {
            for num in ["7", "2.5", "1e"] {
                out.push(("extra number glued to the left of a variable".to_string(), format!("{before} {num}{} {after}", t.text).trim().to_string()));
            }
        }
    }
    out
}

fn fixed_family(table: &Table) -> Vec<(String, String)> {
    let mut v: Vec<(String, String)> = vec![
        ("empty".into(), "".into()),
        ("blank".into(), " ".into()),
        ("blank".into(), "     ".into()),
        ("two operands".into(), "a b".into()),
        ("three operands".into(), "a b c".into()),
        ("two numbers".into(), "1 2".into()),
        ("adjacent groups".into(), "(a)(b)".into()),
        ("adjacent groups".into(), "(a) (b)".into()),
        ("empty parens".into(), "()".into()),
        ("empty parens".into(), "a+()".into()),
        ("lonely comma".into(), ",".into()),
        ("lonely comma".into(), "a,b".into()),
    ];
    for o in table {
        if o.bin.is_some() || o.un.is_some() {
            v.push(("operator only".into(), o.name.to_string()));
            v.push(("operator only".into(), format!(" {} ", o.name)));
        }
        if o.bin.is_some() && o.un.is_none() {
            v.push(("operand count".into(), format!("a {} {} b", o.name, o.name)));
            v.push(("leading binary operator".into(), format!("{} b", o.name)));
            v.push(("operator before closing parenthesis".into(), format!("(a {}) b", o.name)));
        }
        if o.bin.is_some() {
            v.push(("trailing operator".into(), format!("a {}", o.name)));
            v.push(("trailing operator in group".into(), format!("(a {})", o.name)));
        }
        if o.un.is_some() && o.bin.is_none() {
            v.push(("unary operator after operand".into(), format!("a {} b", o.name)));
            v.push(("unary operator before closing parenthesis".into(), format!("(a + {})", o.name)));
        }
    }
    v
}

fn gen_case(rng: &mut Rng, fam: Family, table: &Table) -> (Tree, Vec<Tok>, String) {
    let vars: Vec<String> = ["x", "y", "z", "w_1", "α"].iter().map(|s| s.to_string()).collect();
    let gcfg = GenCfg { lit_num: rng.below(8), un_num: rng.below(4), const_num: 2, chain_num: rng.below(8), vars };
    let size = match rng.below(10) {
        0..=5 => rng.range(1, 4),
        6..=8 => rng.range(5, 10),
        _ => rng.range(11, 24),
    };
    let tree = gen_tree(rng, table, size, &gcfg);
    let cfg = RenderCfg {
        call: if rng.chance(1, 3) { rng.range(1, 5) } else { 0 },
        call_alpha_only: fam != Family::Sym || rng.chance(1, 2),
        extra_paren: rng.below(4),
        juxta: rng.below(4),
        space: rng.below(3),
        brace: rng.below(3),
        call_script: None,
    };
    let mut toks = render_tokens(&tree, table, rng, &cfg);
    if fam == Family::Val {
        // some number literals become array literals (one token for the value-typed parser)
        for t in toks.iter_mut() {
            if t.kind == TK::Num && rng.chance(1, 4) {
                t.text = ["[1.0, 2.0]", "[3]", "[0.5,1.5,2.5]", "[ 1.0 , 2.0, 3.0, 4.0 ]"][rng.below(4)].to_string();
            }
        }
    }
    let text = join_plain(&toks, table);
    (tree, toks, text)
}

pub fn run(ctx: &Ctx) -> i32 {
    let n = ctx.n(7_000, 500_000);
    let stats = run_workers(ctx, 7, |w, rng, st| {
        let quota = share(n, w, ctx.threads);
        let mut table = gen_table(rng, &TableCfg::default());
        let ftable = float_table();
        let vtable = val_table();
        for i in 0..quota {
            let fam = match i % 4 {
                0 | 1 => Family::Sym,
                2 => Family::Float,
                _ => Family::Val,
            };
            if i % 8 == 0 {
                table = gen_table(rng, &TableCfg::default());
            }
            let tb: &Table = match fam {
                Family::Sym => &table,
                Family::Float => &ftable,
                Family::Val => &vtable,
            };
            install(&table);
            let (tree, toks, text) = gen_case(rng, fam, tb);
            st.bump("texts");
            st.class((fam == Family::Sym, tree.shape_key(tb)));
            if accepted_by(&text, fam).is_empty() {
                st.bump("original_texts_rejected_by_all_parsers_skipped");
                continue;
            }
            if tree.n_leaves() <= 4 {
                st.bump("small_texts_with_all_damage_positions");
            }
            let mut all = damages(&toks, tb, &text, rng);
            if i % 64 == 0 {
                all.extend(fixed_family(tb));
            }
            if fam != Family::Sym {
                all.extend(glued_damages(&toks, tb));
            }
            // a damaged text stays malformed when a whitespace-like character is put between two of
            // its tokens (whether a parser rejects such characters or skips them)
            let mut extra: Vec<(String, String)> = vec![];
            for (k, (kind, damaged)) in all.iter().enumerate() {
                if k % 7 != i % 7 {
                    continue;
                }
                let boundaries: Vec<usize> = damaged.char_indices().filter(|(_, c)| *c == ' ').map(|x| x.0).collect();
                if let Some(&b) = boundaries.get(rng.below(boundaries.len().max(1))) {
                    // only outside braces
                    if damaged[..b].matches('{').count() == damaged[..b].matches('}').count() {
                        let ws = *rng.pick(&["\u{a0}", "\u{2003}", "\u{3000}", "\t", "\n", "\u{a0} ", " \u{2003}"]);
                        let mut t = damaged.clone();
                        t.replace_range(b..b + 1, ws);
                        extra.push((format!("{kind} + exotic whitespace"), t));
                    }
                }
            }
            all.extend(extra);
            for (kind, damaged) in all {
                st.bump("cases");
                st.bump(&format!("damage: {}{}", kind.split('\'').next().unwrap().trim(), if kind.ends_with("exotic whitespace") { " + exotic whitespace" } else { "" }));
                let acc = accepted_by(&damaged, fam);
                if !acc.is_empty() {
                    if st.violations.len() >= 8 {
                        st.bump("violations_raw");
                        continue;
                    }
                    st.violation(
                        format!("{fam:?}|{kind}|{damaged}|{}", if fam == Family::Sym { table_desc(tb) } else { String::new() }),
                        damaged.len(),
                        json!({"kind": "damaged-text-accepted", "family": format!("{fam:?}"), "damage": kind, "original": text, "damaged": damaged, "accepted_by": acc, "table": if fam == Family::Sym { table_desc(tb) } else { "shipped".into() }}),
                    );
                }
            }
            if st.samples.len() < st.max_samples && tree.n_leaves() == 3 {
                let d = damages(&toks, tb, &text, rng);
                st.sample(json!({"original": text, "family": format!("{fam:?}"), "some_damaged_variants": d.iter().step_by(5).take(6).map(|x| json!({"damage": x.0, "text": x.1})).collect::<Vec<_>>()}));
            }
        }
    });
    let report = Report::new(
        "well-formed texts rendered from random trees (1..24 operands; random tables over the term algebra, the shipped float table, the shipped value table; optional call notation, redundant parentheses, juxtaposed unary operators, braces) x EVERY single-point damage: delete each parenthesis; insert '(' / ')' / one illegal character at every character position outside braces; append each binary operator of the table (with and without trailing space); an extra operand (number, variable, braced variable, parenthesised operand) directly left and right of every primary operand token, for the shipped tables also glued to it without a separator (`1e5`, `2.5E1`, `7x`); plus the fixed family (empty, blank, operator-only, operand/operator count mismatch). Oracle: every parser entry point returns Err (FlatEx::parse, parse_wo_compile, DeepEx::parse, exmex::parse, eval_str f32/f64, parse_val i32/f64 and i64/f32, and deserialisation of a flat expression from the text). distinct_nontrivial = distinct (table family, tree shape) classes of the damaged originals; evaluations = damaged variants judged.",
    )
    .assume("illegal characters are taken from a set disjoint from all operator names, identifier characters and literal syntaxes in use: $ ? @ \\ ~ ' \" ` § (tab/newline deliberately not included)")
    .assume("an extra operand is inserted only directly beside a primary operand token, never between a binary operator and a following sign")
    .require("texts", 1000)
    .require("small_texts_with_all_damage_positions", 100)
    .require("damage: extra number right of an operand", 1000)
    .require("damage: delete", 1000)
    .require("damage: extra variable glued to the right of a number", 1000)
    .require("damage: insert illegal character", 1000);
    finish(ctx, stats, report)
}
