//! C05 A partial derivative evaluates to the mathematical derivative.
use crate::core::{catch, finish, run_workers, share, Ctx, Report, Stats};
use crate::diffutil::*;
use crate::num::{Rat, DR, FR};
use crate::rng::Rng;
use crate::sym::Table;
use crate::tree::*;
use exmex::prelude::*;
use exmex::DeepEx;
use serde_json::json;

/// The default float operators in reversed table order (constants and unary operators first).
/// Derivative rules find operators by name, so the order of the table must not matter.
#[derive(Clone, Debug)]
pub struct ReversedFloatOps;
impl exmex::MakeOperators<f64> for ReversedFloatOps {
    fn make<'a>() -> Vec<exmex::Operator<'a, f64>> {
        let mut v = <exmex::FloatOpsFactory<f64> as exmex::MakeOperators<f64>>::make();
        v.reverse();
        v
    }
}
thread_local! {
    static EXCLUDED: std::cell::RefCell<Vec<&'static str>> = const { std::cell::RefCell::new(Vec::new()) };
}
/// The default float operators without the ones named in the thread-local list: a user's
/// operator table that is a subset of the defaults.  A derivative rule whose result needs an
/// operator that is not in the table cannot return a wrong expression - it is an error.
#[derive(Clone, Debug)]
pub struct SubsetFloatOps;
impl exmex::MakeOperators<f64> for SubsetFloatOps {
    fn make<'a>() -> Vec<exmex::Operator<'a, f64>> {
        let ex = EXCLUDED.with(|e| e.borrow().clone());
        <exmex::FloatOpsFactory<f64> as exmex::MakeOperators<f64>>::make().into_iter().filter(|o| !ex.contains(&o.repr())).collect()
    }
}
type FlatRev = FlatEx<f64, ReversedFloatOps>;
type DeepRev<'a> = DeepEx<'a, f64, ReversedFloatOps>;

/// first and second derivative (sequential single calls through the flat form, and through the
/// deep form) over the reversed table, evaluated at `p`
fn reversed_table_values(text: &str, w1: usize, w2: usize, p: &[f64]) -> Result<[f64; 4], String> {
    let e = |x: exmex::ExError| x.msg().to_string();
    let f = FlatRev::parse(text).map_err(e)?;
    let d1 = f.clone().partial(w1).map_err(e)?;
    let d2 = d1.clone().partial(w2).map_err(e)?;
    let dd1 = DeepRev::parse(text).map_err(e)?.partial(w1).map_err(e)?;
    let dd2 = FlatRev::from_deepex(dd1.clone()).map_err(e)?.partial(w2).map_err(e)?;
    Ok([d1.eval(p).map_err(e)?, d2.eval(p).map_err(e)?, dd1.eval(p).map_err(e)?, dd2.eval(p).map_err(e)?])
}

/// the ways a derivative can be obtained: flat, deep, converted forms
fn derivative_f64(text: &str, path: usize, idx: usize) -> Result<FlatEx<f64>, String> {
    let e = |x: exmex::ExError| x.msg().to_string();
    match path {
        0 => FlatEx::<f64>::parse(text).map_err(e)?.partial(idx).map_err(e),
        1 => FlatEx::from_deepex(DeepEx::<f64>::parse(text).map_err(e)?.partial(idx).map_err(e)?).map_err(e),
        2 => FlatEx::from_deepex(FlatEx::<f64>::parse(text).map_err(e)?.to_deepex().map_err(e)?.partial(idx).map_err(e)?).map_err(e),
        3 => FlatEx::<f64>::from_deepex(DeepEx::<f64>::parse(text).map_err(e)?).map_err(e)?.partial(idx).map_err(e),
        _ => FlatEx::<f64>::parse_wo_compile(text).map_err(e)?.partial(idx).map_err(e),
    }
}
const PATH_NAMES: [&str; 5] = ["FlatEx::partial", "DeepEx::partial", "flat->deep->partial", "deep->flat->partial", "FlatEx::parse_wo_compile->partial"];

fn float_case(rng: &mut Rng, st: &mut Stats) {
    let with_nondiff = rng.chance(1, 6);
    let table = diff_table(rng, with_nondiff);
    let tree = gen_diff_tree(rng, &table, 10);
    let vars = tree.vars();
    if vars.is_empty() {
        return;
    }
    let cfg = if rng.chance(1, 2) { RenderCfg::plain() } else { RenderCfg::random(rng) };
    let text = render(&tree, &table, rng, &cfg);
    let nondiff = nondiff_over_variable(&tree, &table);
    st.bump("cases");
    st.class((tree.shape_key(&table), text.len()));
    let wrt = rng.below(vars.len());
    let path = rng.below(5);
    let d = catch(|| derivative_f64(&text, path, wrt));
    let d = match d {
        Err(m) => {
            st.violation(format!("panic|{}|{text}", PATH_NAMES[path]), text.len(), json!({"kind": "derivative-panic", "text": text, "path": PATH_NAMES[path], "wrt": vars[wrt], "panic": m}));
            return;
        }
        Ok(d) => d,
    };
    if nondiff {
        st.bump("trees_with_rule_less_operator_over_variable");
        match &d {
            Err(_) => {
                st.bump("rule_less_operator_reported_as_error");
                return;
            }
            Ok(_) => st.bump("rule_less_operator_differentiated_anyway_value_judged"),
        }
    }
    let d = match d {
        Ok(d) => d,
        Err(m) => {
            if crate::core::is_zero_pow_zero(&m) {
                st.bump("zero_to_the_zero_errors_not_judged");
                return;
            }
            st.violation(format!("error|{}|{text}", PATH_NAMES[path]), text.len(), json!({"kind": "derivative-error", "text": text, "path": PATH_NAMES[path], "wrt": vars[wrt], "error": m}));
            return;
        }
    };
    if d.var_names() != vars.as_slice() {
        st.violation(format!("vars|{text}"), text.len(), json!({"kind": "derivative-variables", "text": text, "got": d.var_names(), "want": vars}));
        return;
    }
    let mut active = vec![];
    active_ops(&tree, &table, &vars[wrt], &mut active);
    let mut judged_here = false;
    for _ in 0..3 {
        let p = sample_point(rng, vars.len());
        st.bump("points_sampled");
        let Some((_, want, mag)) = ref_d1(&tree, &table, &vars, &p, wrt) else {
            st.bump("points_discarded_by_guards");
            continue;
        };
        st.bump("points_judged");
        judged_here = true;
        let got = d.eval(&p).unwrap_or(f64::NAN);
        if !close(got, want, mag, 1e-9) {
            st.violation(
                format!("value|{}|{text}|d{}", PATH_NAMES[path], vars[wrt]),
                text.len(),
                json!({"kind": "derivative-value", "text": text, "path": PATH_NAMES[path], "wrt": vars[wrt], "point": p, "variables": vars, "got": got, "true_derivative": want, "derivative_text": d.unparse(), "max_magnitude": mag}),
            );
            return;
        }
    }
    if judged_here {
        active.sort();
        active.dedup();
        for a in active {
            st.bump(&format!("rule judged: {a}"));
        }
        if st.samples.len() < st.max_samples && text.len() < 40 && text.len() > 8 {
            st.sample(json!({"text": text, "wrt": vars[wrt], "path": PATH_NAMES[path], "derivative_printed": d.unparse()}));
        }
    }
    // the same over the reversed operator table
    if rng.chance(1, 4) && !nondiff {
        let w2 = rng.below(vars.len());
        let p = sample_point(rng, vars.len());
        if let (Some((_, want1, mag1)), Some((want2, mag2))) = (ref_d1(&tree, &table, &vars, &p, wrt), ref_d2(&tree, &table, &vars, &p, wrt, w2)) {
            st.bump("reversed_table_points_judged");
            match catch(|| reversed_table_values(&text, wrt, w2, &p)) {
                Ok(Ok(v)) => {
                    if !close(v[0], want1, mag1, 1e-9) || !close(v[2], want1, mag1, 1e-9) || !close(v[1], want2, mag2, 1e-7) || !close(v[3], want2, mag2, 1e-7) {
                        st.violation(
                            format!("reversed-table|{text}|d{}d{}", vars[wrt], vars[w2]),
                            text.len() + 50,
                            json!({"kind": "derivative-value-with-reordered-operator-table", "text": text, "wrt": [vars[wrt].clone(), vars[w2].clone()], "point": p, "got_[flat d1, flat d2, deep d1, deep->flat d2]": v.to_vec(), "true_first": want1, "true_second": want2}),
                        );
                        return;
                    }
                }
                Ok(Err(m)) => {
                    if !crate::core::is_zero_pow_zero(&m) {
                        st.violation(format!("reversed-table-error|{text}"), text.len() + 50, json!({"kind": "derivative-error-with-reordered-operator-table", "text": text, "error": m}));
                        return;
                    }
                }
                Err(m) => {
                    st.violation(format!("reversed-table-panic|{text}"), text.len() + 50, json!({"kind": "derivative-panic-with-reordered-operator-table", "text": text, "panic": m}));
                    return;
                }
            }
        }
    }
    // higher order: second derivative through two successive calls
    if rng.chance(1, 3) && !nondiff {
        let w2 = if rng.chance(1, 3) { wrt } else { rng.below(vars.len()) };
        // the second order is reached by a second single call, by one iterated call or by one
        // repeated call on the original expression
        let how = if w2 == wrt { rng.below(3) } else { rng.below(2) };
        let d2 = catch(|| match how {
            0 => d.clone().partial(w2),
            1 => FlatEx::<f64>::parse(&text).and_then(|f| f.partial_iter([wrt, w2].into_iter())),
            _ => {
                if path % 2 == 0 {
                    FlatEx::<f64>::parse(&text).and_then(|f| f.partial_nth(wrt, 2))
                } else {
                    DeepEx::<f64>::parse(&text).and_then(|f| f.partial_nth(wrt, 2)).and_then(FlatEx::from_deepex)
                }
            }
        });
        match d2 {
            Ok(Ok(d2)) => {
                for _ in 0..2 {
                    let p = sample_point(rng, vars.len());
                    let Some((want, mag)) = ref_d2(&tree, &table, &vars, &p, wrt, w2) else { continue };
                    st.bump("second_order_points_judged");
                    st.bump(["second_order_by_two_single_calls", "second_order_by_partial_iter", "second_order_by_partial_nth"][how]);
                    let got = d2.eval(&p).unwrap_or(f64::NAN);
                    if !close(got, want, mag, 1e-7) {
                        st.violation(
                            format!("value2|{text}|d{}d{}", vars[wrt], vars[w2]),
                            text.len() + 100,
                            json!({"kind": "second-derivative-value", "text": text, "wrt": [vars[wrt].clone(), vars[w2].clone()], "point": p, "got": got, "true_derivative": want, "derivative_text": d2.unparse()}),
                        );
                        return;
                    }
                }
            }
            Ok(Err(e)) => {
                if !crate::core::is_zero_pow_zero(e.msg()) {
                    st.violation(format!("error2|{text}"), text.len() + 100, json!({"kind": "second-derivative-error", "text": text, "error": e.msg()}));
                }
            }
            Err(m) => st.violation(format!("panic2|{text}"), text.len() + 100, json!({"kind": "second-derivative-panic", "text": text, "panic": m})),
        }
    }
}

/// differentiation over a subset of the default operators: Err, or the true derivative
fn subset_table_case(rng: &mut Rng, st: &mut Stats) {
    const CANDIDATES: &[&str] = &["ln", "cos", "sin", "exp", "sqrt", "cosh", "sinh", "tanh", "tan", "log", "log2", "log10", "atan", "asin", "acos"];
    let k = rng.range(1, 3);
    let excluded: Vec<&'static str> = (0..k).map(|_| *rng.pick(CANDIDATES)).collect();
    let table: Table = diff_table(rng, false).into_iter().filter(|o| !excluded.contains(&o.name)).collect();
    let tree = gen_diff_tree(rng, &table, 6);
    let vars = tree.vars();
    if vars.is_empty() {
        return;
    }
    let text = render(&tree, &table, rng, &RenderCfg::plain());
    let wrt = rng.below(vars.len());
    let deep = rng.chance(1, 2);
    st.bump("cases");
    st.bump("subset_table_cases");
    st.class(("subset", excluded.clone(), tree.shape_key(&table)));
    EXCLUDED.with(|e| *e.borrow_mut() = excluded.clone());
    let r = catch(|| -> Result<FlatEx<f64, SubsetFloatOps>, String> {
        let e = |x: exmex::ExError| x.msg().to_string();
        if deep {
            FlatEx::from_deepex(DeepEx::<f64, SubsetFloatOps>::parse(&text).map_err(e)?.partial(wrt).map_err(e)?).map_err(e)
        } else {
            FlatEx::<f64, SubsetFloatOps>::parse(&text).map_err(e)?.partial(wrt).map_err(e)
        }
    });
    let d = match r {
        Err(m) => {
            st.violation(format!("subset-panic|{excluded:?}|{text}"), text.len(), json!({"kind": "derivative-panic-over-subset-table", "text": text, "operators_missing_from_the_table": excluded, "panic": m}));
            return;
        }
        Ok(Err(_)) => {
            st.bump("subset_table_cases_reported_as_error");
            return;
        }
        Ok(Ok(d)) => d,
    };
    for _ in 0..3 {
        let p = sample_point(rng, vars.len());
        let Some((_, want, mag)) = ref_d1(&tree, &table, &vars, &p, wrt) else { continue };
        st.bump("subset_table_points_judged");
        let got = d.eval(&p).unwrap_or(f64::NAN);
        if !close(got, want, mag, 1e-9) {
            st.violation(
                format!("subset-value|{excluded:?}|{text}|d{}", vars[wrt]),
                text.len(),
                json!({"kind": "derivative-value-over-subset-table", "text": text, "operators_missing_from_the_table": excluded, "wrt": vars[wrt], "point": p, "got": got, "true_derivative": want, "derivative_text": d.unparse()}),
            );
            return;
        }
    }
}

fn rat_case(rng: &mut Rng, table: &Table, st: &mut Stats) {
    let tree = gen_rat_tree(rng, table, 9);
    let vars = tree.vars();
    if vars.is_empty() {
        return;
    }
    let text = render(&tree, table, rng, &RenderCfg::plain());
    st.bump("cases");
    st.bump("exact_cases");
    st.class(("rat", tree.shape_key(table)));
    let wrt = rng.below(vars.len());
    let deep = rng.chance(1, 2);
    let r = catch(|| -> Result<FR, String> {
        let e = |x: exmex::ExError| x.msg().to_string();
        if deep {
            FR::from_deepex(DR::parse(&text).map_err(e)?.partial(wrt).map_err(e)?).map_err(e)
        } else {
            FR::parse(&text).map_err(e)?.partial(wrt).map_err(e)
        }
    });
    let d = match r {
        Ok(Ok(d)) => d,
        Ok(Err(m)) => {
            if crate::core::is_zero_pow_zero(&m) {
                st.bump("zero_to_the_zero_errors_not_judged");
            } else {
                st.violation(format!("rat-error|{text}"), text.len(), json!({"kind": "exact-derivative-error", "text": text, "error": m}));
            }
            return;
        }
        Err(m) => {
            st.violation(format!("rat-panic|{text}"), text.len(), json!({"kind": "exact-derivative-panic", "text": text, "panic": m}));
            return;
        }
    };
    for _ in 0..3 {
        let p = rat_point(rng, vars.len());
        let Some((_, want)) = ref_rat_d1(&tree, table, &vars, &p, wrt) else {
            st.bump("exact_points_discarded");
            continue;
        };
        let got: Rat = d.eval(&p).unwrap_or(crate::num::POISON);
        if got.is_poison() {
            // the derivative expression squares denominators: its exact evaluation can leave the
            // 100-bit range although the reference does not; not judged (f64 covers such cases)
            st.bump("exact_points_overflow_in_derivative_form_not_judged");
            continue;
        }
        st.bump("exact_points_judged");
        if got != want {
            st.violation(
                format!("rat-value|{text}|d{}", vars[wrt]),
                text.len(),
                json!({"kind": "exact-derivative-value", "text": text, "wrt": vars[wrt], "point": format!("{p:?}"), "got": format!("{got:?}"), "true_derivative": format!("{want:?}"), "derivative_text": d.unparse()}),
            );
            return;
        }
    }
    if rng.chance(1, 3) {
        let w2 = if rng.chance(1, 3) { wrt } else { rng.below(vars.len()) };
        let how = if w2 == wrt { rng.below(3) } else { rng.below(2) };
        let d2 = catch(|| match how {
            0 => d.clone().partial(w2),
            1 => {
                if deep {
                    DR::parse(&text).and_then(|f| f.partial_iter([wrt, w2].into_iter())).and_then(FR::from_deepex)
                } else {
                    FR::parse(&text).and_then(|f| f.partial_iter([wrt, w2].into_iter()))
                }
            }
            _ => {
                if deep {
                    DR::parse(&text).and_then(|f| f.partial_nth(wrt, 2)).and_then(FR::from_deepex)
                } else {
                    FR::parse(&text).and_then(|f| f.partial_nth(wrt, 2))
                }
            }
        });
        if let Ok(Ok(d2)) = d2 {
            st.bump(["exact_second_order_by_two_single_calls", "exact_second_order_by_partial_iter", "exact_second_order_by_partial_nth"][how]);
            for _ in 0..2 {
                let p = rat_point(rng, vars.len());
                let Some(want) = ref_rat_d2(&tree, table, &vars, &p, wrt, w2) else { continue };
                let got: Rat = d2.eval(&p).unwrap_or(crate::num::POISON);
                if got.is_poison() {
                    continue;
                }
                st.bump("exact_second_order_points_judged");
                if got != want {
                    st.violation(
                        format!("rat-value2|{text}|d{}d{}", vars[wrt], vars[w2]),
                        text.len() + 100,
                        json!({"kind": "exact-second-derivative-value", "text": text, "point": format!("{p:?}"), "got": format!("{got:?}"), "true_derivative": format!("{want:?}")}),
                    );
                    return;
                }
            }
        }
    }
}

/// Long chains on ONE nesting level (18..48 operands, no parentheses), exact arithmetic: the
/// rules are applied operator by operator in the order the priorities impose (equal priorities
/// left to right), also when one level of a directly parsed deep expression carries dozens of
/// operators.
fn long_level_case(rng: &mut Rng, table: &Table, st: &mut Stats) {
    let n = rng.range(18, 48);
    let op = |name: &str| table.iter().position(|o| o.name == name).unwrap();
    let (add, sub, mul, div) = (op("+"), op("-"), op("*"), op("/"));
    let names = ["x", "y", "z"];
    let operands: Vec<Tree> = (0..n).map(|_| if rng.chance(1, 4) { Tree::lit(&format!("{}", rng.range(1, 5))) } else { Tree::var(*rng.pick(&names)) }).collect();
    let style = rng.below(3);
    let ops: Vec<usize> = (0..n - 1)
        .map(|_| match (style, rng.below(12)) {
            (0, 0..=6) => sub,
            (0, _) => mul,
            (1, 0..=3) => add,
            (1, 4..=7) => sub,
            (1, 8..=10) => mul,
            (1, _) => div,
            (_, 0..=7) => sub,
            (_, 8..=9) => div,
            _ => mul,
        })
        .collect();
    let tree = tree_from_chain(&operands, &ops, table);
    let vars = tree.vars();
    if vars.is_empty() {
        return;
    }
    let text = render(&tree, table, rng, &RenderCfg::plain());
    if text.contains('(') {
        return;
    }
    st.bump("cases");
    st.bump("long_single_level_chains");
    st.class(("long-level", n, style, ops.iter().filter(|o| **o == mul).count()));
    let wrt = rng.below(vars.len());
    let deep = rng.chance(2, 3);
    let r = catch(|| -> Result<FR, String> {
        let e = |x: exmex::ExError| x.msg().to_string();
        if deep {
            FR::from_deepex(DR::parse(&text).map_err(e)?.partial(wrt).map_err(e)?).map_err(e)
        } else {
            FR::parse(&text).map_err(e)?.partial(wrt).map_err(e)
        }
    });
    let d = match r {
        Ok(Ok(d)) => d,
        Ok(Err(m)) => {
            st.violation(format!("long-level-error|{text}"), text.len(), json!({"kind": "exact-derivative-error", "text": text, "error": m}));
            return;
        }
        Err(m) => {
            st.violation(format!("long-level-panic|{text}"), text.len(), json!({"kind": "exact-derivative-panic", "text": text, "panic": m}));
            return;
        }
    };
    for _ in 0..3 {
        let p = rat_point(rng, vars.len());
        let Some((_, want)) = ref_rat_d1(&tree, table, &vars, &p, wrt) else {
            st.bump("exact_points_discarded");
            continue;
        };
        let got: Rat = d.eval(&p).unwrap_or(crate::num::POISON);
        if got.is_poison() {
            st.bump("exact_points_overflow_in_derivative_form_not_judged");
            continue;
        }
        st.bump("long_single_level_chain_points_judged");
        if deep {
            st.bump("long_single_level_chain_points_judged_deep_parse");
        }
        if got != want {
            st.violation(
                format!("long-level-value|{}|{text}|d{}", if deep { "deep" } else { "flat" }, vars[wrt]),
                text.len(),
                json!({"kind": "exact-derivative-value-long-level", "text": text, "parsed_as": if deep { "DeepEx" } else { "FlatEx" }, "wrt": vars[wrt], "point": format!("{p:?}"), "got": format!("{got:?}"), "true_derivative": format!("{want:?}")}),
            );
            return;
        }
    }
}

pub fn run(ctx: &Ctx) -> i32 {
    let n = ctx.n(120_000, 6_000_000);
    let stats = run_workers(ctx, 5, |w, rng, st| {
        let quota = share(n, w, ctx.threads);
        let rtable = sub_table(&["+", "-", "*", "/", "^"], true);
        for i in 0..quota {
            if i % 16 == 9 {
                subset_table_case(rng, st);
            } else if i % 16 == 5 {
                long_level_case(rng, &rtable, st);
            } else if i % 4 == 3 {
                rat_case(rng, &rtable, st);
            } else {
                float_case(rng, st);
            }
        }
    });
    let mut report = Report::new(
        "random trees (1..10 operands, depth-unbounded) over + - * / ^ (literal, variable and compound exponents), unary + -, the 18 elementary functions and the constants, rendered in random spellings; derivative obtained through FlatEx::partial, DeepEx::partial, flat->deep->partial, deep->flat->partial, and a second time for order 2 (by a second single call, by partial_iter or by partial_nth on the original); long parenthesis-free chains of 18..48 operands on one nesting level, parsed directly as deep expressions, over exact rationals; operator tables that are subsets of the defaults (a rule that needs a missing operator must give Err, never another expression); compared at random points with forward-mode dual numbers evaluated on the reference tree. f64: |D-R| <= 1e-9 max(|R|, 1e-6 M) at points that pass interior-domain guards (arguments 0.05 away from every singularity, magnitudes < 1e6) and a conditioning filter; exact rationals (+ - * / and integer literal powers): equality. A tree containing an operator without a derivative rule over a variable must yield Err (or, if a derivative is returned, a correct one). distinct_nontrivial = distinct (tree shape, text length) classes.",
    )
    .assume("points failing the guards or the conditioning filter are discarded and counted, never judged")
    .assume("0^0 'both zero' errors of the power shortcut are counted, not judged")
    .require("points_judged", 10000)
    .require("second_order_points_judged", 1000)
    .require("reversed_table_points_judged", 1000)
    .require("exact_points_judged", 5000)
    .require("subset_table_points_judged", 2000)
    .require("subset_table_cases_reported_as_error", 100)
    .require("long_single_level_chain_points_judged_deep_parse", 2000)
    .require("second_order_by_partial_iter", 300)
    .require("second_order_by_partial_nth", 100)
    .require("exact_second_order_by_partial_iter", 300)
    .require("exact_second_order_by_partial_nth", 100)
    .require("rule_less_operator_reported_as_error", 500);
    for r in ["binary +", "binary -", "binary *", "binary /", "binary ^ (constant exponent)", "binary ^ (variable exponent)", "unary -", "unary +"] {
        report = report.require(&format!("rule judged: {r}"), 100);
    }
    for r in &DIFF_UN[2..] {
        report = report.require(&format!("rule judged: unary {r}"), 50);
    }
    finish(ctx, stats, report)
}
