//! C19 Default float operators and constants compute the functions they name.
use crate::core::{catch, finish, run_workers, Ctx, Report, Stats};
use crate::rng::Rng;
use exmex::prelude::*;
use exmex::{DeepEx, FloatOpsFactory, MakeOperators};
use serde_json::json;

pub const BIN_NAMES: &[&str] = &["^", "*", "/", "+", "-", "atan2", "min", "max"];
pub const UN_NAMES: &[&str] = &[
    "+", "-", "abs", "signum", "sin", "cos", "tan", "asin", "acos", "atan", "sinh", "cosh", "tanh", "asinh", "acosh", "atanh", "floor", "round", "ceil", "trunc", "fract", "exp",
    "sqrt", "cbrt", "ln", "log2", "log10", "log",
];
pub const CONST_NAMES: &[&str] = &["PI", "π", "E", "e", "TAU", "τ"];

macro_rules! float_checks {
    ($modname:ident, $F:ty, $U:ty, $tn:expr) => {
        mod $modname {
            use super::*;
            type F = $F;

            /// the documented meaning of every name, written down independently
            pub fn model_bin(name: &str, a: F, b: F) -> F {
                match name {
                    "^" => a.powf(b),
                    "*" => a * b,
                    "/" => a / b,
                    "+" => a + b,
                    "-" => a - b,
                    "atan2" => a.atan2(b),
                    "min" => a.min(b),
                    "max" => a.max(b),
                    _ => unreachable!(),
                }
            }
            pub fn model_un(name: &str, a: F) -> F {
                match name {
                    "+" => a,
                    "-" => -a,
                    "abs" => a.abs(),
                    "signum" => a.signum(),
                    "sin" => a.sin(),
                    "cos" => a.cos(),
                    "tan" => a.tan(),
                    "asin" => a.asin(),
                    "acos" => a.acos(),
                    "atan" => a.atan(),
                    "sinh" => a.sinh(),
                    "cosh" => a.cosh(),
                    "tanh" => a.tanh(),
                    "asinh" => a.asinh(),
                    "acosh" => a.acosh(),
                    "atanh" => a.atanh(),
                    "floor" => a.floor(),
                    "round" => a.round(),
                    "ceil" => a.ceil(),
                    "trunc" => a.trunc(),
                    "fract" => a.fract(),
                    "exp" => a.exp(),
                    "sqrt" => a.sqrt(),
                    "cbrt" => a.cbrt(),
                    "ln" | "log" => a.ln(),
                    "log2" => a.log2(),
                    "log10" => a.log10(),
                    _ => unreachable!(),
                }
            }
            pub fn model_const(name: &str) -> F {
                match name {
                    "PI" | "π" => std::f64::consts::PI as F,
                    "E" | "e" => std::f64::consts::E as F,
                    "TAU" | "τ" => std::f64::consts::TAU as F,
                    _ => unreachable!(),
                }
            }

            /// to within rounding, with the same NaN / infinity / signed-zero behaviour
            pub fn agrees(got: F, want: F, op: &str) -> bool {
                if got.to_bits() == want.to_bits() || (got.is_nan() && want.is_nan()) {
                    return true;
                }
                if got.is_nan() != want.is_nan() || got.is_infinite() || want.is_infinite() {
                    return false;
                }
                if got == 0.0 && want == 0.0 {
                    // only min / max may differ in the sign of a zero (unspecified in Rust)
                    return op == "min" || op == "max";
                }
                if got.is_sign_negative() != want.is_sign_negative() || got == 0.0 || want == 0.0 {
                    return false;
                }
                let (a, b) = (got.abs().to_bits(), want.abs().to_bits());
                (if a > b { a - b } else { b - a }) <= 4 as $U
            }

            pub fn specials() -> Vec<F> {
                vec![
                    0.0, -0.0, 1.0, -1.0, 0.5, -0.5, 2.0, -2.0, 3.0, 10.0, 0.1, 1.5, -1.5, 2.5, -2.5, F::MIN_POSITIVE, -F::MIN_POSITIVE, F::MIN_POSITIVE / 4.0, F::EPSILON, F::MAX, F::MIN,
                    F::MAX / 2.0, 1e10, -1e10, 1e-10, F::INFINITY, F::NEG_INFINITY, F::NAN, std::f64::consts::PI as F, std::f64::consts::FRAC_PI_2 as F, 0.999999, 1.000001, 709.0, 88.0, 1e30, 16777216.0, 4503599627370496.0 as F,
                ]
            }

            pub fn random(rng: &mut Rng) -> F {
                match rng.below(6) {
                    0 => F::from_bits(rng.next() as $U),
                    1 => (rng.unit() * 2.0 - 1.0) as F,
                    2 => (rng.unit() * 200.0 - 100.0) as F,
                    3 => ((rng.unit() * 2.0 - 1.0) * 1e-6) as F,
                    4 => ((rng.unit() * 2.0 - 1.0) * 1e12) as F,
                    _ => (rng.below(41) as f64 - 20.0) as F * 0.5,
                }
            }

            fn literal(x: F) -> Option<String> {
                if !x.is_finite() || x.is_sign_negative() {
                    return None;
                }
                let s = format!("{x:?}");
                if s.contains('e') {
                    None
                } else {
                    Some(s)
                }
            }

            pub fn run(rng: &mut Rng, n_random: usize, st: &mut Stats) {
                let ops = FloatOpsFactory::<F>::make();
                let bad = |st: &mut Stats, how: &str, name: &str, args: String, got: String, want: String| {
                    st.violation(format!("{}|{how}|{name}|{args}", $tn), args.len(), json!({"kind": "float-operator", "type": $tn, "how": how, "operator": name, "arguments": args, "got": got, "documented": want}));
                };
                // completeness of the table
                for n in BIN_NAMES {
                    if !ops.iter().any(|o| o.repr() == *n && o.has_bin()) {
                        bad(st, "table", n, "binary operator missing from the default table".into(), "absent".into(), "present".into());
                    }
                }
                for n in UN_NAMES {
                    if !ops.iter().any(|o| o.repr() == *n && o.has_unary()) {
                        bad(st, "table", n, "unary operator missing from the default table".into(), "absent".into(), "present".into());
                    }
                }
                for n in CONST_NAMES {
                    match ops.iter().find(|o| o.repr() == *n).and_then(|o| o.constant()) {
                        Some(c) if agrees(c, model_const(n), "") => st.bump("constants_checked"),
                        other => bad(st, "table", n, "constant".into(), format!("{other:?}"), format!("{:?}", model_const(n))),
                    }
                }
                let sp = specials();
                let rnd: Vec<F> = (0..n_random).map(|_| random(rng)).collect();
                // direct application
                for name in UN_NAMES {
                    let Some(f) = ops.iter().find(|o| o.repr() == *name).and_then(|o| o.unary().ok()) else { continue };
                    st.class(($tn, "unary", *name));
                    for a in sp.iter().chain(rnd.iter()) {
                        st.bump("cases");
                        st.bump("direct_applications");
                        let want = model_un(name, *a);
                        match catch(|| f(*a)) {
                            Ok(got) if agrees(got, want, name) => {}
                            Ok(got) => bad(st, "direct", name, format!("{a:?}"), format!("{got:?}"), format!("{want:?}")),
                            Err(m) => bad(st, "direct", name, format!("{a:?}"), format!("PANIC {m}"), format!("{want:?}")),
                        }
                    }
                }
                for name in BIN_NAMES {
                    let Some(f) = ops.iter().find(|o| o.repr() == *name).and_then(|o| o.bin().ok()) else { continue };
                    st.class(($tn, "binary", *name));
                    let mut pairs: Vec<(F, F)> = vec![];
                    for a in &sp {
                        for b in &sp {
                            pairs.push((*a, *b));
                        }
                    }
                    for i in 0..n_random {
                        pairs.push((rnd[i], rnd[(i * 7 + 3) % n_random]));
                        pairs.push((rnd[i], sp[i % sp.len()]));
                    }
                    for (a, b) in pairs {
                        st.bump("cases");
                        st.bump("direct_applications");
                        let want = model_bin(name, a, b);
                        match catch(|| (f.apply)(a, b)) {
                            Ok(got) if agrees(got, want, name) => {}
                            Ok(got) => bad(st, "direct", name, format!("({a:?}, {b:?})"), format!("{got:?}"), format!("{want:?}")),
                            Err(m) => bad(st, "direct", name, format!("({a:?}, {b:?})"), format!("PANIC {m}"), format!("{want:?}")),
                        }
                    }
                }
                // through parsed expressions: values as variables (so specials are expressible)
                let few: Vec<F> = sp.iter().copied().chain(rnd.iter().copied().take(40)).collect();
                for name in UN_NAMES {
                    let texts = [format!("{name}(x)"), format!("{name} x"), format!("{name}((x))"), format!("({name} x)")];
                    for (ti, t) in texts.iter().enumerate() {
                        let flat = FlatEx::<F>::parse(t);
                        let deep = DeepEx::<F>::parse(t);
                        for a in &few {
                            st.bump("cases");
                            st.bump("parsed_applications");
                            let want = model_un(name, *a);
                            let got = catch(|| (flat.as_ref().map(|e| e.eval(&[*a])), deep.as_ref().map(|e| e.eval(&[*a]))));
                            match got {
                                Ok((Ok(Ok(g1)), Ok(Ok(g2)))) if agrees(g1, want, name) && agrees(g2, want, name) => {}
                                other => {
                                    bad(st, if ti == 1 { "parsed juxtaposed" } else { "parsed" }, name, format!("text {t:?} at x = {a:?}"), format!("{other:?}").chars().take(200).collect(), format!("{want:?}"));
                                    break;
                                }
                            }
                        }
                    }
                }
                for name in BIN_NAMES {
                    let alpha = name.chars().next().unwrap().is_alphabetic();
                    let texts = [format!("x {name} y"), format!("{name}(x, y)"), format!("(x){name}(y)"), format!("{name}((x),y)"), format!("1*{name}(x,y)")];
                    for (ti, t) in texts.iter().enumerate() {
                        if !alpha && ti == 2 && (*name == "+" || *name == "-") {
                            // fine as well: binary because it follows a closing parenthesis
                        }
                        let flat = FlatEx::<F>::parse(t);
                        let deep = DeepEx::<F>::parse(t);
                        for (i, a) in few.iter().enumerate() {
                            for b in few.iter().skip(i % 3).step_by(3) {
                                st.bump("cases");
                                st.bump("parsed_applications");
                                let want = model_bin(name, *a, *b);
                                let got = catch(|| (flat.as_ref().map(|e| e.eval(&[*a, *b])), deep.as_ref().map(|e| e.eval(&[*a, *b]))));
                                match got {
                                    Ok((Ok(Ok(g1)), Ok(Ok(g2)))) if agrees(g1, want, name) && agrees(g2, want, name) => {}
                                    other => {
                                        bad(st, if ti % 2 == 1 { "parsed call form" } else { "parsed infix" }, name, format!("text {t:?} at (x, y) = ({a:?}, {b:?})"), format!("{other:?}").chars().take(200).collect(), format!("{want:?}"));
                                        break;
                                    }
                                }
                            }
                        }
                    }
                    // finite literals through eval_str (parse_wo_compile path)
                    for (i, a) in few.iter().enumerate() {
                        let b = few[(i * 5 + 1) % few.len()];
                        if let (Some(la), Some(lb)) = (literal(*a), literal(b)) {
                            for t in [format!("{la} {name} {lb}"), format!("{name}({la}, {lb})")] {
                                st.bump("cases");
                                st.bump("eval_str_applications");
                                let want = model_bin(name, *a, b);
                                match catch(|| exmex::eval_str::<F>(&t)) {
                                    Ok(Ok(g)) if agrees(g, want, name) => {}
                                    other => bad(st, "eval_str", name, format!("text {t:?}"), format!("{other:?}").chars().take(200).collect(), format!("{want:?}")),
                                }
                            }
                        }
                    }
                }
                // every operator applied on top of every operator: written in the text, and applied
                // to a parsed expression afterwards (an operator keeps its meaning whatever it is
                // applied to - `asin` of `sin(x)` is not x outside [-pi/2, pi/2])
                for inner in UN_NAMES {
                    for outer in UN_NAMES {
                        let t_in = format!("{inner}(x)");
                        let forms: Vec<(&str, exmex::ExResult<FlatEx<F>>)> = vec![
                            ("parsed composition", FlatEx::<F>::parse(&format!("{outer}({inner}(x))"))),
                            ("FlatEx::operate_unary", FlatEx::<F>::parse(&t_in).and_then(|e| e.operate_unary(outer))),
                            ("DeepEx::operate_unary", DeepEx::<F>::parse(&t_in).and_then(|e| e.operate_unary(outer)).and_then(FlatEx::<F>::from_deepex)),
                        ];
                        st.class(($tn, "composition", *inner, *outer));
                        for (how, e) in &forms {
                            for a in few.iter().step_by(2) {
                                st.bump("cases");
                                st.bump("composed_applications");
                                let want = model_un(outer, model_un(inner, *a));
                                let got = catch(|| e.as_ref().map(|e| e.eval(&[*a])));
                                match got {
                                    Ok(Ok(Ok(g))) if agrees(g, want, outer) => {}
                                    other => {
                                        bad(st, how, outer, format!("{outer} applied to {inner}(x) at x = {a:?}"), format!("{other:?}").chars().take(200).collect(), format!("{want:?}"));
                                        break;
                                    }
                                }
                            }
                        }
                    }
                }
                for name in CONST_NAMES {
                    for t in [name.to_string(), format!("({name})"), format!("1*{name}"), format!("-{name}")] {
                        st.bump("cases");
                        st.bump("eval_str_applications");
                        let want = if t.starts_with('-') { -model_const(name) } else { model_const(name) };
                        match catch(|| exmex::eval_str::<F>(&t)) {
                            Ok(Ok(g)) if agrees(g, want, "") => {}
                            other => bad(st, "eval_str", name, format!("text {t:?}"), format!("{other:?}"), format!("{want:?}")),
                        }
                    }
                }
            }
        }
    };
}

float_checks!(c64, f64, u64, "f64");
float_checks!(c32, f32, u32, "f32");

pub fn run(ctx: &Ctx) -> i32 {
    let n_random = ctx.n(400, 40_000);
    let stats = run_workers(ctx, 19, |w, rng, st| {
        if w % 2 == 0 {
            c64::run(rng, n_random, st);
        } else {
            c32::run(rng, n_random, st);
        }
        if w == 0 {
            st.sample(json!({"operator": "atan2", "arguments": "(1.0, -0.0)", "documented": "1.0f64.atan2(-0.0)"}));
            st.sample(json!({"text": "x ^ y", "at": "(-0.0, -1.0)", "documented": "(-0.0f64).powf(-1.0) = -inf"}));
        }
    });
    let mut report = Report::new(
        "every operator (8 binary, 28 unary incl. the signs) and every constant (6) of FloatOpsFactory<f32> and <f64>: table completeness, then direct application (function pointers) to the special-value catalogue (37 values: +-0, +-1, subnormals, epsilon, MAX/MIN, huge, +-inf, NaN, pi, values next to 1, exp overflow edges, integer-precision edges; binary: every ordered pair, which also pins the argument order) and to random values of all magnitudes (incl. random bit patterns); the same through FlatEx and DeepEx on one-operator texts in infix, call, parenthesised and juxtaposed form with the operands passed as variables, and through eval_str with finite literals. Oracle: an independent name -> Rust primitive table; equal bits, or both NaN, or within 4 ulp with identical sign / zero / infinity class (sign of a zero from min/max excepted). Every worker draws its own random operands. distinct_nontrivial = operators x arity x float type.",
    )
    .require("direct_applications", 50000)
    .require("parsed_applications", 20000)
    .require("eval_str_applications", 500)
    .require("constants_checked", 12)
    .require("composed_applications", 100000);
    report.extra = json!({"exhaustive_subspace": "every operator x every (ordered pair of) special value(s), f32 and f64"});
    finish(ctx, stats, report)
}
