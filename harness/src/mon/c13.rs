//! C13 Operator names match exactly; numbers, signs and braces tokenise as documented.
use crate::core::{catch, finish, run_workers, Ctx, Report, Stats};
use crate::model::{self, Lits};
use crate::mon::c04::BRACED_NAMES;
use crate::rng::Rng;
use crate::sym::{install, intern, table_desc, BinSpec, OpSpec, Sym, SymOps, Table, DX, FX};
use crate::sympaths::{judge, observe, Fail, R};
use crate::treecase::expect;
use exmex::{Express, FlatEx, NumberMatcher};
use serde_json::json;

#[derive(Clone, Copy)]
enum K {
    B(i64, bool),
    U,
    D(i64),
    C,
}

fn mk(spec: &[(&str, K)]) -> Table {
    spec.iter()
        .enumerate()
        .map(|(i, (n, k))| {
            let s = i as u8;
            match k {
                K::B(p, c) => OpSpec { name: intern(n), bin: Some(BinSpec { slot: s, prio: *p, comm: *c }), un: None, constant: None },
                K::U => OpSpec::un(intern(n), s),
                K::D(p) => OpSpec::dual(intern(n), s, *p, false, s),
                K::C => OpSpec::constant(intern(n), Sym::Lit(format!("{}.25", 70 + i))),
            }
        })
        .collect()
}

fn tables() -> Vec<(&'static str, Table)> {
    use K::*;
    vec![
        (
            "default-float-names",
            mk(&[
                ("^", B(4, false)), ("*", B(2, true)), ("/", B(3, false)), ("+", D(0)), ("-", D(1)), ("atan2", B(0, false)), ("min", B(0, false)), ("max", B(0, false)),
                ("abs", U), ("signum", U), ("sin", U), ("cos", U), ("tan", U), ("asin", U), ("acos", U), ("atan", U), ("sinh", U), ("cosh", U), ("tanh", U),
                ("asinh", U), ("acosh", U), ("atanh", U), ("floor", U), ("round", U), ("ceil", U), ("trunc", U), ("fract", U), ("exp", U), ("sqrt", U), ("cbrt", U),
                ("ln", U), ("log2", U), ("log10", U), ("log", U), ("PI", C), ("π", C), ("E", C), ("e", C), ("TAU", C), ("τ", C),
            ]),
        ),
        (
            "value-table-names",
            mk(&[
                ("^", B(6, false)), ("+", D(3)), ("-", D(3)), ("*", B(4, true)), ("/", B(5, false)), ("%", B(5, false)), ("|", B(2, true)), ("&", B(2, true)), ("XOR", B(2, true)),
                (">>", B(2, false)), ("<<", B(2, false)), ("&&", B(2, true)), ("||", B(2, true)), ("==", B(1, true)), (">=", B(1, false)), (">", B(1, false)), ("<=", B(1, false)),
                ("<", B(1, false)), ("!=", B(1, true)), ("if", B(0, false)), ("else", B(0, false)), ("min", B(0, false)), ("max", B(0, false)),
                ("fact", U), ("to_int", U), ("to_float", U), ("to_le", U), ("to_be", U), ("swap_bytes", U), ("sin", U), ("log", U), ("log2", U), ("log10", U), ("PI", C), ("E", C), ("TAU", C),
            ]),
        ),
        ("prefix-chain-unary", mk(&[("+", D(1)), ("*", B(2, true)), ("a", U), ("ab", U), ("abc", U), ("abcd", C)])),
        ("prefix-chain-mixed", mk(&[("+", D(1)), ("*", B(2, false)), ("a", C), ("ab", U), ("abc", B(0, false)), ("b", U)])),
        ("prefix-symbolic", mk(&[("<", B(1, false)), ("<=", B(1, false)), ("<<", B(3, false)), ("<<<", B(0, true)), ("-", D(2)), ("!", U), ("!=", B(1, true)), ("!!", U)])),
        ("greek", mk(&[("+", D(0)), ("·", B(2, true)), ("λ", U), ("λμ", U), ("Σ", U), ("Ω", C), ("ω", C), ("√", U)])),
        // names of operators that can be binary are proper prefixes of unary-only operators and of constants
        ("binary-prefix-of-unary-and-constant", mk(&[("+", D(1)), ("-", D(1)), ("--", U), ("*", B(2, true)), ("mx", B(0, false)), ("mxint", C), ("e", B(3, false)), ("exp", U), ("ee", C)])),
        ("digits-in-names", mk(&[("+", D(0)), ("*", B(2, true)), ("f", U), ("f1", U), ("f12", U), ("f_1", U), ("k9", C)])),
    ]
    .into_iter()
    .flat_map(|(name, t)| {
        // the order of the operator table must not matter: every small table also runs reversed
        // (same data type, same number of operators, other positions)
        if t.len() <= 9 {
            let mut r = t.clone();
            r.reverse();
            let rname: &'static str = Box::leak(format!("{name}-reversed").into_boxed_str());
            vec![(name, t), (rname, r)]
        } else {
            vec![(name, t)]
        }
    })
    .collect()
}

fn exmex_paths(text: &str, number_matcher: bool) -> Vec<(&'static str, R)> {
    let mut v = vec![];
    let mut run = |name: &'static str, f: &dyn Fn() -> R| {
        v.push((name, catch(f).unwrap_or_else(|m| Err(Fail::Panic(m)))));
    };
    if number_matcher {
        run("flat", &|| FlatEx::<Sym, SymOps, NumberMatcher>::parse(text).map_err(|e| Fail::Parse(e.msg().into())).and_then(|e| observe(&e)));
        run("flat_wo", &|| FlatEx::<Sym, SymOps, NumberMatcher>::parse_wo_compile(text).map_err(|e| Fail::Parse(e.msg().into())).and_then(|e| observe(&e)));
        run("deep", &|| exmex::DeepEx::<Sym, SymOps, NumberMatcher>::parse(text).map_err(|e| Fail::Parse(e.msg().into())).and_then(|e| observe(&e)));
    } else {
        run("flat", &|| FX::parse(text).map_err(|e| Fail::Parse(e.msg().into())).and_then(|e| observe(&e)));
        run("flat_wo", &|| FX::parse_wo_compile(text).map_err(|e| Fail::Parse(e.msg().into())).and_then(|e| observe(&e)));
        run("deep", &|| DX::parse(text).map_err(|e| Fail::Parse(e.msg().into())).and_then(|e| observe(&e)));
    }
    v
}

/// judges one text against the reference lexer/parser; `must_reject`: the family knows the text
/// is not well-formed and every parser has to reject it
fn judge_text(text: &str, table: &Table, tname: &str, lits: Lits, family: &str, must_reject: bool, st: &mut Stats) {
    st.bump("cases");
    st.bump(&format!("family: {family}"));
    let want = model::parse(text, table, lits);
    match &want {
        Ok(tree) => {
            st.bump("texts_with_model_tree");
            st.class((tname.to_string(), text.to_string()));
            let ex = expect(tree, table);
            for (path, r) in exmex_paths(text, lits == Lits::Number) {
                if let Some(m) = judge(&r, &ex.vars, &ex.norm, &ex.comm) {
                    st.violation(
                        format!("{tname}|{path}|{text}|{}", m.kind()),
                        text.len(),
                        json!({"kind": "lexical", "family": family, "table": tname, "table_desc": table_desc(table), "text": text, "path": path,
                               "documented_reading": format!("variables {:?}, term {:?}", ex.vars, ex.norm), "mismatch": m.describe()}),
                    );
                    return;
                }
            }
        }
        Err(_) => {
            st.bump("texts_outside_model");
            if must_reject {
                st.class((tname.to_string(), text.to_string(), "reject"));
                for (path, r) in exmex_paths(text, lits == Lits::Number) {
                    let bad = match &r {
                        Ok(o) => Some(format!("accepted with variables {:?} and value {:?}", o.vars, o.val)),
                        Err(Fail::Panic(m)) => Some(format!("panic {m}")),
                        Err(_) => None,
                    };
                    if let Some(b) = bad {
                        st.violation(
                            format!("{tname}|{path}|{text}|accepted"),
                            text.len(),
                            json!({"kind": "lexical-must-reject", "family": family, "table": tname, "text": text, "path": path, "problem": b}),
                        );
                        return;
                    }
                }
            }
        }
    }
}

fn name_families(table: &Table, tname: &str, st: &mut Stats) {
    let ext = ["x", "4", "_", "λ", "Z", "0", "e", "2", "10"];
    let follow = [" 4", "(4)", "{x}", " x", "-x", " -x", " 4.5", " (x+1)", " x*2", "+1", " + 1", "*x"];
    let ctx: [(&str, &str); 5] = [("", ""), ("2*", ""), ("", "+1"), ("(", ")"), ("x+", "*y")];
    for o in table.iter() {
        let n = o.name;
        // extended by one identifier character
        for e in ext {
            for (pre, post) in ctx {
                judge_text(&format!("{pre}{n}{e}{post}"), table, tname, Lits::Sym, "name extended by an identifier character", false, st);
            }
            // and then applied / followed by something
            for f in &follow[..4] {
                judge_text(&format!("{n}{e}{f}"), table, tname, Lits::Sym, "extended name followed by operand", false, st);
            }
        }
        // truncated by one character
        if n.chars().count() > 1 {
            let t: String = n.chars().take(n.chars().count() - 1).collect();
            for (pre, post) in ctx {
                judge_text(&format!("{pre}{t}{post}"), table, tname, Lits::Sym, "name truncated by one character", false, st);
                judge_text(&format!("{pre}{t} 4{post}"), table, tname, Lits::Sym, "name truncated by one character", false, st);
            }
        }
        // exact name followed by space / ( / { / sign / number
        for f in follow {
            for (pre, post) in ctx {
                judge_text(&format!("{pre}{n}{f}{post}"), table, tname, Lits::Sym, "exact name followed by operand", false, st);
            }
            // binary use
            judge_text(&format!("x{n}{f}"), table, tname, Lits::Sym, "name after an operand", false, st);
            judge_text(&format!("x {n}{f}"), table, tname, Lits::Sym, "name after an operand", false, st);
            judge_text(&format!("3{n}{f}"), table, tname, Lits::Sym, "name after a number", false, st);
        }
        // two names in a row, with and without separating space
        for o2 in table.iter() {
            for sep in ["", " ", "("] {
                let close = if sep == "(" { ")" } else { "" };
                judge_text(&format!("{n}{sep}{} x{close}", o2.name), table, tname, Lits::Sym, "two names in a row", false, st);
                judge_text(&format!("x {n}{sep}{}(y){close}", o2.name), table, tname, Lits::Sym, "two names in a row", false, st);
            }
        }
    }
}

/// identifiers and spellings that the float types' own `FromStr` would read as numbers, through
/// the real float instantiations: whether a text is a variable or a number is decided by the
/// tokenizer alone, at every entry point (`eval_str` of a text with a variable is an error)
pub const FLOAT_LOOKALIKES: &[&str] = &[
    "nan", "NaN", "NAN", "inf", "Inf", "INF", "infinity", "Infinity", "-inf", "+inf", "-nan", "- infinity", "1e3", "2E-2", ".5e1", "1e+3", "1e", "e1", "0x10", "1_000", "inf+1", "2*nan", "nan*inf", "(inf)", " nan ",
    "{inf}", "x+infinity", "1.5e3*x", "4.", "2.*x", "x+1.", ".5", "4.5.", "1..2",
];

fn float_lookalikes(table: &Table, st: &mut Stats) {
    for text in FLOAT_LOOKALIKES {
        st.bump("cases");
        st.bump("family: float look-alikes through f64 / f32");
        let want: Option<Vec<String>> = model::parse(text, table, Lits::Number).ok().map(|t| t.vars());
        let entry = |name: &'static str, r: Result<Result<Vec<String>, ()>, String>| -> Option<String> {
            match (r, &want) {
                (Err(m), _) => Some(format!("{name} panicked: {m}")),
                (Ok(Ok(got)), Some(w)) if &got == w => None,
                (Ok(Err(())), None) => None,
                (Ok(Ok(got)), Some(w)) => Some(format!("{name} reads variables {got:?}, documented reading {w:?}")),
                (Ok(Ok(got)), None) => Some(format!("{name} accepts the text (variables {got:?}), the documented grammar rejects it")),
                (Ok(Err(())), Some(w)) => Some(format!("{name} rejects the text, documented reading: variables {w:?}")),
            }
        };
        let mut problems: Vec<String> = vec![];
        problems.extend(entry("FlatEx::<f64>::parse", catch(|| FlatEx::<f64>::parse(text).map(|e| e.var_names().to_vec()).map_err(|_| ()))));
        problems.extend(entry("FlatEx::<f32>::parse", catch(|| FlatEx::<f32>::parse(text).map(|e| e.var_names().to_vec()).map_err(|_| ()))));
        problems.extend(entry("FlatEx::<f64>::parse_wo_compile", catch(|| FlatEx::<f64>::parse_wo_compile(text).map(|e| e.var_names().to_vec()).map_err(|_| ()))));
        problems.extend(entry("DeepEx::<f64>::parse", catch(|| exmex::DeepEx::<f64>::parse(text).map(|e| e.var_names().to_vec()).map_err(|_| ()))));
        // eval_str has no values to bind: Ok iff the documented reading has no variables
        for (name, ok) in [("eval_str::<f64>", catch(|| exmex::eval_str::<f64>(text).is_ok())), ("eval_str::<f32>", catch(|| exmex::eval_str::<f32>(text).is_ok()))] {
            let should = matches!(&want, Some(w) if w.is_empty());
            match ok {
                Err(m) => problems.push(format!("{name} panicked: {m}")),
                Ok(o) if o != should => problems.push(format!("{name} returns {} although the documented reading {}", if o { "a value" } else { "an error" }, match &want { Some(w) if w.is_empty() => "is a variable-free expression".to_string(), Some(w) => format!("has the variables {w:?}"), None => "rejects the text".to_string() })),
                _ => {}
            }
        }
        if let Some(p) = problems.first() {
            st.violation(format!("float-lookalike|{text}|{}", p.split(' ').next().unwrap_or("")), text.len(), json!({"kind": "lexical-float-type", "text": text, "problems": problems}));
        }
    }
}

fn sign_chains(table: &Table, tname: &str, st: &mut Stats) {
    let duals: Vec<&str> = table.iter().filter(|o| o.bin.is_some() && o.un.is_some()).map(|o| o.name).collect();
    if duals.is_empty() {
        return;
    }
    let other_bin: Vec<&str> = table.iter().filter(|o| o.bin.is_some() && o.un.is_none()).map(|o| o.name).take(2).collect();
    for len in 1..=4usize {
        for sel in 0..duals.len().pow(len as u32) {
            let chain: Vec<&str> = (0..len).map(|k| duals[(sel / duals.len().pow(k as u32)) % duals.len()]).collect();
            for sp in ["", " "] {
                let c = chain.join(sp);
                let mut texts = vec![format!("{c}x"), format!("{c} x"), format!("({c}x)"), format!("x{c}y"), format!("x {c} y"), format!("(x){c}y"), format!("2{c}3"), format!("x{c}(y)"), format!("{c}(x)")];
                for b in &other_bin {
                    texts.push(format!("x{b}{c}y"));
                    texts.push(format!("x {b} {c}y"));
                    texts.push(format!("({c}x){b}y"));
                }
                for t in texts {
                    judge_text(&t, table, tname, Lits::Sym, "sign chains", false, st);
                }
            }
        }
    }
}

fn literal_spellings(ctx: &Ctx, w: usize, table: &Table, tname: &str, st: &mut Stats) {
    let alphabet: Vec<char> = "0123456789.".chars().collect();
    let max_len = 5;
    let mut idx = 0usize;
    for len in 1..=max_len {
        for sel in 0..alphabet.len().pow(len as u32) {
            idx += 1;
            if idx % ctx.threads != w {
                continue;
            }
            let s: String = (0..len).map(|k| alphabet[(sel / alphabet.len().pow(k as u32)) % alphabet.len()]).collect();
            let dots = s.matches('.').count();
            let valid = dots <= 1 && s.len() > dots;
            st.bump(if valid { "literal_spellings_valid" } else { "literal_spellings_invalid" });
            judge_text(&s, table, tname, Lits::Number, "literal spellings", !valid, st);
            if sel % 7 == 0 {
                judge_text(&format!("x+{s}"), table, tname, Lits::Number, "literal spellings in context", !valid, st);
                judge_text(&format!("{s}*x"), table, tname, Lits::Number, "literal spellings in context", !valid, st);
            }
        }
    }
}

fn braces(table: &Table, tname: &str, st: &mut Stats) {
    for name in BRACED_NAMES.iter().chain(["sin", "PI", "log2", "a", "ab", "λ", "x}".trim_end_matches('}')].iter()) {
        for t in [format!("{{{name}}}"), format!("2*{{{name}}}+{{{name}}}"), format!("{{{name}}}*x"), format!("-{{{name}}}"), format!("({{{name}}})")] {
            judge_text(&t, table, tname, Lits::Sym, "brace contents", false, st);
        }
    }
}

fn random_texts(rng: &mut Rng, table: &Table, tname: &str, n: usize, st: &mut Stats) {
    let mut pieces: Vec<String> = table.iter().map(|o| o.name.to_string()).collect();
    pieces.extend(["x", "y", "4", "2.5", "(", ")", " ", " ", "_", "1", "{q r}"].iter().map(|s| s.to_string()));
    for _ in 0..n {
        let len = rng.range(1, 7);
        let mut t = String::new();
        for _ in 0..len {
            let pc: &String = rng.pick(&pieces[..]);
            t.push_str(pc);
        }
        judge_text(&t, table, tname, Lits::Sym, "random concatenations of names", false, st);
    }
}

pub fn run(ctx: &Ctx) -> i32 {
    let n_random = ctx.n(20_000, 2_000_000);
    let stats = run_workers(ctx, 13, |w, rng, st| {
        let tabs = tables();
        for (ti, (tname, table)) in tabs.iter().enumerate() {
            install(table);
            if ti % ctx.threads == w % tabs.len().min(ctx.threads) && w < tabs.len() {
                name_families(table, tname, st);
                sign_chains(table, tname, st);
                braces(table, tname, st);
            }
            random_texts(rng, table, tname, n_random / tabs.len() / ctx.threads, st);
        }
        let (tname, table) = &tabs[0];
        install(table);
        literal_spellings(ctx, w, table, tname, st);
        if w == 0 {
            float_lookalikes(table, st);
        }
        if w == 0 {
            st.sample(json!({"table": "default-float-names", "text": "sin4+sin 4+sin(4)", "documented_reading": "variable sin4, sin applied to 4 twice"}));
            st.sample(json!({"table": "prefix-chain-unary", "text": "abx", "documented_reading": "one variable abx (neither a nor ab is applied)"}));
        }
    });
    let mut report = Report::new(
        "targeted lexical families over 7 tables (names of the default float table, of the value table, unary/constant/binary prefix chains a/ab/abc/abcd, symbolic prefix chains < <= << <<< and ! != !!, Greek, digits in names): every operator/constant name extended by one identifier character (letter, digit, underscore, Greek), truncated by one character, followed by space / ( / { / sign / number, used after an operand, two names in a row with and without separator; all sign chains of length <= 4 in every position class; ALL literal spellings of length <= 5 over [0-9.] through NumberMatcher (accepted iff digits with at most one dot; invalid spellings must be rejected); hostile brace contents; random concatenations of names; identifiers and spellings that Rust's float parser would read as numbers (nan, inf, 1e3, ...) through FlatEx<f64/f32>, DeepEx<f64> and eval_str. Oracle: an independent reference lexer (documented rule: longest name wins, non-binary names only when not continued by identifier characters, sign unary iff first / after operator / after '(') + recursive-descent reference parser; judged on variables and term over the term algebra for FlatEx (folded/unfolded) and DeepEx whenever the model yields a tree. distinct_nontrivial = distinct (table, text) pairs judged.",
    )
    .assume("texts the reference model does not accept are not judged (except invalid literal spellings, which must be rejected); call notation is left to C08")
    .require("texts_with_model_tree", 10000)
    .require("family: sign chains", 500)
    .require("literal_spellings_valid", 1000)
    .require("literal_spellings_invalid", 1000)
    .require("family: name extended by an identifier character", 1000);
    report.extra = json!({"exhaustive_subspace": "all strings of length <= 5 over [0-9.]; all sign chains of length <= 4"});
    finish(ctx, stats, report)
}
