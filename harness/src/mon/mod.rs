use crate::core::Ctx;
pub mod c01;
pub mod c02;
pub mod c03;
pub mod c04;
pub mod c05;
pub mod c06;
pub mod c07;
pub mod c08;
pub mod c09;
pub mod c10;
pub mod c11;
pub mod c12;
pub mod c13;
pub mod c14;
pub mod c15;
pub mod c16;
pub mod c17;
pub mod c18;
pub mod c19;
pub mod c20;

pub fn dispatch(ctx: &Ctx) -> i32 {
    match ctx.id {
        "C01" => c01::run(ctx),
        "C02" => c02::run(ctx),
        "C03" => c03::run(ctx),
        "C04" => c04::run(ctx),
        "C05" => c05::run(ctx),
        "C06" => c06::run(ctx),
        "C07" => c07::run(ctx),
        "C08" => c08::run(ctx),
        "C09" => c09::run(ctx),
        "C10" => c10::run(ctx),
        "C11" => c11::run(ctx),
        "C12" => c12::run(ctx),
        "C13" => c13::run(ctx),
        "C14" => c14::run(ctx),
        "C15" => c15::run(ctx),
        "C16" => c16::run(ctx),
        "C17" => c17::run(ctx),
        "C18" => c18::run(ctx),
        "C19" => c19::run(ctx),
        "C20" => c20::run(ctx),
        other => {
            println!("INCONCLUSIVE property={other} reason=no monitor with this id");
            2
        }
    }
}
