//! C12 Printed expressions parse back to the same expression.
use crate::core::{catch, finish, run_workers, share, Ctx, Report, Stats};
use crate::rng::Rng;
use crate::stdtables::{float_table, val_table};
use crate::sym::{install, table_desc, Table, DX, FX};
use crate::sympaths::{judge, observe, Fail, R};
use crate::tree::*;
use crate::treecase::{expect, used_ops_desc, Expect};
use exmex::prelude::*;
use exmex::{DeepEx, Val};
use serde_json::json;

fn reparse(text: &str, deep: bool) -> R {
    if deep {
        match DX::parse(text) {
            Ok(e) => observe(&e),
            Err(e) => Err(Fail::Parse(format!("printed text {text:?} does not parse: {}", e.msg()))),
        }
    } else {
        match FX::parse(text) {
            Ok(e) => observe(&e),
            Err(e) => Err(Fail::Parse(format!("printed text {text:?} does not parse: {}", e.msg()))),
        }
    }
}

fn check_printed(what: &str, printed: &str, ex: &Expect) -> Option<String> {
    for deep in [false, true] {
        if let Some(m) = judge(&reparse(printed, deep), &ex.vars, &ex.norm, &ex.comm) {
            return Some(format!("{what}: printed {printed:?} re-parsed as {}: {}", if deep { "deep" } else { "flat" }, m.describe()));
        }
    }
    None
}

/// all round trips for one (tree, text)
fn problem(tree: &Tree, table: &Table, text: &str, st: Option<&mut Stats>) -> Option<String> {
    let ex = expect(tree, table);
    let r = catch(|| -> Option<String> {
        // (i) a parsed flat expression prints exactly its text
        let f = match FX::parse(text) {
            Ok(f) => f,
            Err(e) => return Some(format!("well-formed text rejected: {}", e.msg())),
        };
        if f.unparse() != text {
            return Some(format!("FlatEx::parse({text:?}).unparse() = {:?}", f.unparse()));
        }
        if format!("{f}") != text {
            return Some(format!("Display of FlatEx::parse({text:?}) = {:?}", format!("{f}")));
        }
        let fw = FX::parse_wo_compile(text).ok()?;
        if fw.unparse() != text {
            return Some(format!("parse_wo_compile({text:?}).unparse() = {:?}", fw.unparse()));
        }
        // (iii) serde round trip of the parsed flat expression
        let ser = serde_json::to_string(&f).ok()?;
        let back: FX = match serde_json::from_str(&ser) {
            Ok(b) => b,
            Err(e) => return Some(format!("deserialising {ser} failed: {e}")),
        };
        if back.unparse() != text {
            return Some(format!("serde round trip changed the text to {:?}", back.unparse()));
        }
        if let Some(m) = judge(&observe(&back), &ex.vars, &ex.norm, &ex.comm) {
            return Some(format!("serde round trip: {}", m.describe()));
        }
        // (ii) deep expression and everything derived from it
        let d = DX::parse(text).ok()?;
        if let Some(p) = check_printed("DeepEx::parse", d.unparse(), &ex) {
            return Some(p);
        }
        // the printed text must also denote what the printing expression itself computes
        // (not only what the reference tree says)
        if let (Ok(own), Ok(back)) = (observe(&d), reparse(d.unparse(), false)) {
            if own.vars != back.vars || ac_norm(&own.val, &ex.comm) != ac_norm(&back.val, &ex.comm) {
                return Some(format!("DeepEx::parse: the expression evaluates to {:?}, its printed text {:?} to {:?}", own.val, d.unparse(), back.val));
            }
        }
        if format!("{d}") != d.unparse() {
            return Some("Display of a deep expression differs from unparse".into());
        }
        let f2 = FX::from_deepex(d.clone()).ok()?;
        if let Some(p) = check_printed("deep->flat", f2.unparse(), &ex) {
            return Some(p);
        }
        let ser = serde_json::to_string(&f2).ok()?;
        match serde_json::from_str::<FX>(&ser) {
            Ok(b) => {
                if let Some(m) = judge(&observe(&b), &ex.vars, &ex.norm, &ex.comm) {
                    return Some(format!("serde round trip of a converted expression ({ser}): {}", m.describe()));
                }
            }
            Err(e) => return Some(format!("deserialising converted expression {ser} failed: {e}")),
        }
        let d2 = f.clone().to_deepex().ok()?;
        if let Some(p) = check_printed("flat->deep", d2.unparse(), &ex) {
            return Some(p);
        }
        let d3 = fw.to_deepex().ok()?;
        if let Some(p) = check_printed("uncompiled flat->deep", d3.unparse(), &ex) {
            return Some(p);
        }
        None
    });
    if let Some(st) = st {
        st.add("round_trips", 9);
    }
    match r {
        Ok(p) => p,
        Err(m) => Some(format!("panic: {m}")),
    }
}

/// printed forms of expressions produced by operator application and substitution
fn derived_problem(t1: &Tree, t2: &Tree, table: &Table, rng: &mut Rng) -> Option<String> {
    let (text1, text2) = (render_plain(t1, table), render_plain(t2, table));
    let bins: Vec<usize> = (0..table.len()).filter(|i| table[*i].bin.is_some()).collect();
    let uns: Vec<usize> = (0..table.len()).filter(|i| table[*i].un.is_some()).collect();
    let (bo, uo) = (*rng.pick(&bins), *rng.pick(&uns));
    let combined = Tree::un(uo, Tree::bin(bo, t1.clone(), t2.clone()));
    let exc = expect(&combined, table);
    // substitution: first variable of t1 := t2
    let v1 = t1.vars();
    fn subst(t: &Tree, name: &str, by: &Tree) -> Tree {
        match t {
            Tree::Var(n) if n == name => by.clone(),
            Tree::Un(o, a) => Tree::un(*o, subst(a, name, by)),
            Tree::Bin(o, a, b) => Tree::bin(*o, subst(a, name, by), subst(b, name, by)),
            _ => t.clone(),
        }
    }
    let r = catch(|| -> Option<String> {
        // a unary operator applied directly to a parsed expression
        let exu = expect(&Tree::un(uo, t1.clone()), table);
        let fu = FX::parse(&text1).ok()?.operate_unary(table[uo].name).ok()?;
        if let Some(p) = check_printed("flat operate_unary on a parsed expression", fu.unparse(), &exu) {
            return Some(p);
        }
        if let (Ok(own), Ok(back)) = (observe(&fu), reparse(fu.unparse(), false)) {
            if own.vars != back.vars || ac_norm(&own.val, &exu.comm) != ac_norm(&back.val, &exu.comm) {
                return Some(format!("flat operate_unary: the expression evaluates to {:?}, its printed text {:?} to {:?}", own.val, fu.unparse(), back.val));
            }
        }
        for deep in [false, true] {
            let printed: String = if deep {
                let (a, b) = (DX::parse(&text1).ok()?, DX::parse(&text2).ok()?);
                a.operate_binary(b, table[bo].name).ok()?.operate_unary(table[uo].name).ok()?.unparse().to_string()
            } else {
                let (a, b) = (FX::parse(&text1).ok()?, FX::parse(&text2).ok()?);
                a.operate_binary(b, table[bo].name).ok()?.operate_unary(table[uo].name).ok()?.unparse().to_string()
            };
            if let Some(p) = check_printed(if deep { "deep operator application" } else { "flat operator application" }, &printed, &exc) {
                return Some(p);
            }
            if let Some(name) = v1.first() {
                let exs = expect(&subst(t1, name, t2), table);
                let printed: String = if deep {
                    let (a, b) = (DX::parse(&text1).ok()?, DX::parse(&text2).ok()?);
                    a.subs(&mut |v: &str| if v == name { Some(b.clone()) } else { None }).ok()?.unparse().to_string()
                } else {
                    let (a, b) = (FX::parse(&text1).ok()?, FX::parse(&text2).ok()?);
                    a.subs(&mut |v: &str| if v == name { Some(b.clone()) } else { None }).ok()?.unparse().to_string()
                };
                if let Some(p) = check_printed(if deep { "deep substitution" } else { "flat substitution" }, &printed, &exs) {
                    return Some(p);
                }
            }
        }
        None
    });
    match r {
        Ok(p) => p,
        Err(m) => Some(format!("panic: {m}")),
    }
}

fn lexically_printable(text: &str) -> bool {
    // the documented gap: f64 Debug forms like 1e-7 / inf / NaN are not literals of the matcher
    let b: Vec<char> = text.chars().collect();
    let mut depth = 0;
    for i in 0..b.len() {
        match b[i] {
            '{' => depth += 1,
            '}' => depth -= 1,
            'e' | 'E' if depth == 0 && i > 0 && (b[i - 1].is_ascii_digit() || b[i - 1] == '.') && i + 1 < b.len() && (b[i + 1].is_ascii_digit() || b[i + 1] == '-') => return false,
            _ => {}
        }
    }
    !(text.contains("inf") || text.contains("NaN"))
}

/// shipped tables: f64 incl. derivatives; Val for parse->print identity and serde
fn shipped_problem(rng: &mut Rng, st: &mut Stats) -> Option<(String, String)> {
    let use_val = rng.chance(1, 3);
    let full = if use_val { val_table() } else { float_table() };
    let keep = ["+", "-", "*", "/", "^", "sin", "cos", "exp", "ln", "sqrt", "tanh", "PI", "E"];
    let table: Table = full.into_iter().filter(|o| keep.contains(&o.name)).collect();
    let gcfg = GenCfg { lit_num: 4, const_num: 1, un_num: 2, chain_num: 4, vars: vec!["x".into(), "y".into(), "a b".into()] };
    let size = rng.range(1, 9);
    let tree = gen_tree(rng, &table, size, &gcfg);
    let cfg = RenderCfg::random(rng);
    let text = render(&tree, &table, rng, &cfg);
    st.bump("shipped_table_texts");
    st.class(("shipped", use_val, text.clone()));
    let pts: Vec<Vec<f64>> = (0..3).map(|_| (0..3).map(|_| 0.3 + rng.unit() * 1.5).collect()).collect();
    let close = |a: f64, b: f64| (a.is_nan() && b.is_nan()) || a == b || (a - b).abs() <= 1e-9 * a.abs().max(b.abs()).max(1e-300);
    let r = catch(|| -> Option<String> {
        if use_val {
            let e = exmex::parse_val::<i32, f64>(&text).ok()?;
            if e.unparse() != text {
                return Some(format!("parse_val({text:?}).unparse() = {:?}", e.unparse()));
            }
            let ser = serde_json::to_string(&e).ok()?;
            let back: exmex::FlatExVal<i32, f64> = match serde_json::from_str(&ser) {
                Ok(b) => b,
                Err(er) => return Some(format!("deserialising {ser} failed: {er}")),
            };
            let n = e.var_names().len();
            for p in &pts {
                let vals: Vec<Val<i32, f64>> = p[..n].iter().map(|x| Val::Float(*x)).collect();
                if format!("{:?}", e.eval(&vals)) != format!("{:?}", back.eval(&vals)) {
                    return Some("serde round trip of a value-typed expression changed its value".into());
                }
            }
            return None;
        }
        let f = FlatEx::<f64>::parse(&text).ok()?;
        if f.unparse() != text {
            return Some(format!("FlatEx::<f64>::parse({text:?}).unparse() = {:?}", f.unparse()));
        }
        let n = f.var_names().len();
        let d = DeepEx::<f64>::parse(&text).ok()?;
        let mut derived: Vec<(String, FlatEx<f64>)> = vec![("deep->flat".into(), FlatEx::from_deepex(d.clone()).ok()?)];
        if n > 0 {
            if let Ok(p) = f.clone().partial(0) {
                derived.push(("flat derivative".into(), p));
            }
            if let Ok(p) = d.clone().partial(n - 1) {
                derived.push(("deep derivative".into(), FlatEx::from_deepex(p).ok()?));
            }
        }
        for (what, e) in derived {
            let printed = e.unparse().to_string();
            if !lexically_printable(&printed) {
                st_note_skipped();
                continue;
            }
            let back = match FlatEx::<f64>::parse(&printed) {
                Ok(b) => b,
                Err(er) => return Some(format!("{what}: printed text {printed:?} does not parse: {}", er.msg())),
            };
            // A derivative keeps the variable list of its antiderivative even when a variable no
            // longer occurs (C09), so its printed text can only bring back the variables that
            // still occur: they must be a subset, and values are compared binding by name.
            let is_derivative = what.contains("derivative");
            let same_vars = if is_derivative { back.var_names().iter().all(|v| e.var_names().contains(v)) } else { back.var_names() == e.var_names() };
            if !same_vars {
                return Some(format!("{what}: printed {printed:?} re-parses with variables {:?} instead of {:?}", back.var_names(), e.var_names()));
            }
            let ser = serde_json::to_string(&e).ok()?;
            let back2: FlatEx<f64> = match serde_json::from_str(&ser) {
                Ok(b) => b,
                Err(er) => return Some(format!("{what}: deserialising {ser} failed: {er}")),
            };
            if back2.var_names() != back.var_names() {
                return Some(format!("{what}: serde round trip lists {:?}, re-parsing the printed text lists {:?}", back2.var_names(), back.var_names()));
            }
            for p in &pts {
                let sub: Vec<f64> = back.var_names().iter().map(|v| p[e.var_names().iter().position(|w| w == v).unwrap()]).collect();
                let (a, b, c) = (e.eval(&p[..n]).ok()?, back.eval(&sub).ok()?, back2.eval(&sub).ok()?);
                if !close(a, b) || !close(a, c) {
                    return Some(format!("{what}: printed {printed:?} evaluates to {b} / {c} instead of {a} at {:?}", &p[..n]));
                }
            }
        }
        None
    });
    let p = match r {
        Ok(p) => p,
        Err(m) => Some(format!("panic: {m}")),
    };
    p.map(|p| (text, p))
}

thread_local! {
    static SKIPPED: std::cell::Cell<u64> = const { std::cell::Cell::new(0) };
}
fn st_note_skipped() {
    SKIPPED.with(|c| c.set(c.get() + 1));
}

pub fn run(ctx: &Ctx) -> i32 {
    let n = ctx.n(80_000, 4_000_000);
    let stats = run_workers(ctx, 12, |w, rng, st| {
        let quota = share(n, w, ctx.threads);
        let mut table = gen_table(rng, &TableCfg::default());
        for i in 0..quota {
            if i % 16 == 0 {
                table = gen_table(rng, &TableCfg::default());
                // several tables with very different priority ranges in one process and thread
                if rng.chance(1, 4) {
                    widen_priorities(&mut table, rng);
                    st.bump("tables_with_negative_or_widely_spread_priorities");
                }
                install(&table);
            }
            let gcfg = GenCfg { lit_num: rng.below(9), un_num: rng.below(4), chain_num: rng.below(8), ..GenCfg::default() };
            let size = match rng.below(10) {
                0..=6 => rng.range(1, 10),
                7..=8 => rng.range(11, 35),
                _ => rng.range(36, 80),
            };
            let tree = if rng.chance(1, 8) {
                st.bump("trees_long_single_level_chain");
                let n = rng.range(15, 70);
                gen_chain_tree(rng, &table, n, &gcfg)
            } else {
                gen_tree(rng, &table, size, &gcfg)
            };
            let cfg = if rng.chance(1, 3) { RenderCfg::plain() } else { RenderCfg { call: rng.below(3), ..RenderCfg::random(rng) } };
            let text = render(&tree, &table, rng, &cfg);
            st.bump("cases");
            st.class(tree.shape_key(&table));
            if let Some(p) = problem(&tree, &table, &text, Some(st)) {
                if st.violations.len() < 6 {
                    let mut pred = |t: &Tree| problem(t, &table, &render_plain(t, &table), None).is_some();
                    let small = if pred(&tree) { shrink_tree(&tree, &mut pred, 300) } else { tree.clone() };
                    let stext = if small == tree { text.clone() } else { render_plain(&small, &table) };
                    let p = problem(&small, &table, &stext, None).unwrap_or(p);
                    st.violation(
                        format!("roundtrip|{}|{}|{}", p.split(':').next().unwrap_or(""), stext, used_ops_desc(&small, &table)),
                        stext.len(),
                        json!({"kind": "print-parse-round-trip", "text": stext, "table": table_desc(&table), "problem": p}),
                    );
                } else {
                    st.bump("violations_raw");
                }
            }
            if i % 4 == 0 {
                let size2 = rng.range(1, 6);
                let t2 = gen_tree(rng, &table, size2, &gcfg);
                st.bump("derived_expression_round_trips");
                if let Some(p) = derived_problem(&tree, &t2, &table, rng) {
                    st.violation(format!("derived|{}", p.chars().take(80).collect::<String>()), p.len(), json!({"kind": "derived-print-parse", "table": table_desc(&table), "a": render_plain(&tree, &table), "b": render_plain(&t2, &table), "problem": p}));
                }
            }
            if i % 4 == 1 {
                if let Some((text, p)) = shipped_problem(rng, st) {
                    st.violation(format!("shipped|{}|{}", p.split(':').next().unwrap_or(""), text), text.len(), json!({"kind": "shipped-print-parse", "text": text, "problem": p}));
                }
            }
            if st.samples.len() < st.max_samples && size > 2 && size < 7 {
                let printed = catch(|| DX::parse(&text).map(|d| d.unparse().to_string()).unwrap_or_default()).unwrap_or_default();
                st.sample(json!({"text": text, "deep_prints": printed}));
            }
        }
        st.add("float_prints_skipped_exponent_or_nonfinite", SKIPPED.with(|c| c.get()));
    });
    let report = Report::new(
        "random trees x tables x spellings over the term algebra (whose Debug form is by construction a literal of its matcher): (i) FlatEx::parse(t).unparse() == t byte for byte (also Display, parse_wo_compile); (ii) the text printed by DeepEx::parse(t), by deep->flat, flat->deep, uncompiled->deep conversions, and by operator application / substitution results (flat and deep) re-parses, as flat and as deep expression, to the reference tree's variables and term (mod AC); (iii) serde_json round trips of parsed and of converted flat expressions preserve text, variables and term. Shipped tables: f64 parse->print identity, printed derivatives and conversions re-parse to the same variables and values (texts containing exponent / non-finite literals are counted and skipped, as the property's proviso says), Val parse->print identity and serde. distinct_nontrivial = distinct tree classes + distinct shipped-table texts.",
    )
    .assume("value-typed derived expressions are not re-parsed: Val's Debug form (Int(3)) is not a literal of ValMatcher (outside the property's proviso)")
    .require("round_trips", 10000)
    .require("derived_expression_round_trips", 1000)
    .require("shipped_table_texts", 1000);
    finish(ctx, stats, report)
}
