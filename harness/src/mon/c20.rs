//! C20 Expressions are immutable values that can be shared across threads.
//!
//! Orchestrates the thread workload `c20w` (own crate, built by tools/pre_C20.sh): fresh native
//! processes, ThreadSanitizer processes, Miri with several scheduler seeds.
use crate::core::{finish, Ctx, Report, Stats};
use serde_json::json;
use std::collections::{BTreeMap, BTreeSet};
use std::process::Command;

struct Round {
    ok: bool,
    order: String,
    digest: String,
    mismatches: Vec<String>,
    status: Option<i32>,
    stderr: String,
}

fn run_round(exe: &std::path::Path, args: &[&str], env: &[(&str, &str)]) -> Option<Round> {
    let mut c = Command::new(exe);
    c.args(args);
    for (k, v) in env {
        c.env(k, v);
    }
    let o = c.output().ok()?;
    let out = String::from_utf8_lossy(&o.stdout).to_string();
    let mut r = Round { ok: false, order: String::new(), digest: String::new(), mismatches: vec![], status: o.status.code(), stderr: String::from_utf8_lossy(&o.stderr).to_string() };
    for l in out.lines() {
        if let Some(x) = l.strip_prefix("ORDER ") {
            r.order = x.to_string();
        } else if let Some(x) = l.strip_prefix("DIGEST ") {
            r.digest = x.to_string();
        } else if let Some(x) = l.strip_prefix("MISMATCH ") {
            r.mismatches.push(x.to_string());
        } else if l.starts_with("C20W-OK") {
            r.ok = true;
        }
    }
    Some(r)
}

/// "Evaluation never modifies the expression", all evaluation histories: an expression that has
/// been evaluated (any number of times) must behave exactly like a never-evaluated copy in every
/// later operation, including the ones that re-index its variables (arithmetic with neutral
/// elements that carry other variable names, substitution, differentiation, conversion).
fn history_independence(ctx: &Ctx, st: &mut Stats) {
    use crate::core::catch;
    use crate::diffutil::{diff_table, gen_diff_tree, sample_point};
    use crate::rng::Rng;
    use crate::tree::render_plain;
    use exmex::prelude::*;
    use exmex::DeepEx;
    let mut rng = Rng::new(ctx.seed, 2020);
    let n = ctx.n(3000, 150_000);
    for _ in 0..n {
        let table = diff_table(&mut rng, false);
        let tree = gen_diff_tree(&mut rng, &table, 6);
        // leaked on purpose: deep expressions borrow their text and are invariant in that lifetime
        let text: &'static str = Box::leak(render_plain(&tree, &table).into_boxed_str());
        let evals = rng.range(1, 4);
        let op = rng.below(9);
        let pts: Vec<Vec<f64>> = (0..2).map(|_| sample_point(&mut rng, 8)).collect();
        st.bump("cases");
        st.bump("evaluation_history_cases");
        st.class(("history", text.len(), op, evals));
        let r = catch(|| -> Option<String> {
            let fresh = DeepEx::<f64>::parse(text).ok()?;
            let used = fresh.clone();
            let nv = used.var_names().len();
            for k in 0..evals {
                let _ = used.eval(&pts[k % 2][..nv]);
                let _ = used.eval_relaxed(&pts[(k + 1) % 2]);
            }
            // (compared through the Debug dump: `==` is not reflexive when a folded literal is NaN)
            if format!("{used:?}") != format!("{fresh:?}") {
                return Some("the Debug dump of a deep expression changed by evaluating it".into());
            }
            // neutral elements and an operand that bring in variables sorting before and after
            let one = DeepEx::<f64>::parse("a0+zz").ok()?.pow(DeepEx::<f64>::zero()).ok()?;
            let zero = (DeepEx::<f64>::parse("a0*zz").ok()? * DeepEx::<f64>::zero()).ok()?;
            let other = DeepEx::<f64>::parse("a0-y+zz").ok()?;
            let apply = |e: DeepEx<'static, f64>| -> exmex::ExResult<DeepEx<'static, f64>> {
                match op {
                    0 => e * one.clone(),
                    1 => one.clone() * e,
                    2 => e + zero.clone(),
                    3 => e / one.clone(),
                    4 => e.pow(one.clone()),
                    5 => e.operate_binary(other.clone(), "-"),
                    6 => e.subs(&mut |v: &str| if v == "x" { Some(other.clone()) } else { None }),
                    7 => {
                        if e.var_names().is_empty() {
                            Ok(e)
                        } else {
                            e.partial(0)
                        }
                    }
                    _ => FlatEx::<f64>::from_deepex(e).and_then(|f| f.to_deepex()),
                }
            };
            let (a, b) = (apply(used), apply(fresh));
            match (a, b) {
                (Ok(a), Ok(b)) => {
                    if a.var_names() != b.var_names() {
                        return Some(format!("variables {:?} after evaluating first, {:?} without", a.var_names(), b.var_names()));
                    }
                    if a.unparse() != b.unparse() {
                        return Some(format!("printed {:?} after evaluating first, {:?} without", a.unparse(), b.unparse()));
                    }
                    let n2 = a.var_names().len();
                    for p in &pts {
                        let (va, vb) = (a.eval(&p[..n2]), b.eval(&p[..n2]));
                        let same = match (&va, &vb) {
                            (Ok(x), Ok(y)) => x.to_bits() == y.to_bits() || (x.is_nan() && y.is_nan()),
                            (Err(_), Err(_)) => true,
                            _ => false,
                        };
                        if !same {
                            return Some(format!("value {va:?} after evaluating the operand first, {vb:?} without, at {:?}", &p[..n2]));
                        }
                    }
                    None
                }
                (Err(_), Err(_)) => None,
                (a, b) => Some(format!("result {:?} after evaluating first, {:?} without", a.map(|x| x.unparse().to_string()), b.map(|x| x.unparse().to_string()))),
            }
        });
        let p = match r {
            Ok(p) => p,
            Err(m) => Some(format!("panic: {m}")),
        };
        if let Some(p) = p {
            let opname = ["e * one", "one * e", "e + zero", "e / one", "e.pow(one)", "operate_binary", "subs", "partial", "deep->flat->deep"][op];
            st.violation(format!("history|{opname}|{text}"), text.len(), json!({"kind": "evaluation-history-dependence", "text": text, "evaluations_before": evals * 2, "then": opname, "problem": p}));
        }
    }
}

pub fn run(ctx: &Ctx) -> i32 {
    let mut st = Stats::new();
    history_independence(ctx, &mut st);
    let native = ctx.verif_dir.join("target/c20w/release/c20w");
    let tsan = ctx.verif_dir.join("target/c20w_tsan/x86_64-unknown-linux-gnu/release/c20w");
    let rounds = ctx.n(40, 2000);
    let tsan_rounds = ctx.n(6, 200);
    let miri_seeds = ctx.n(2, 32);
    let threads = "16";
    let mut orders: BTreeSet<String> = BTreeSet::new();
    let mut winners: BTreeMap<String, u64> = BTreeMap::new();
    let mut digests: BTreeSet<String> = BTreeSet::new();

    // (1) fresh native processes: cold first-use initialisation raced by 16 threads each time
    if !native.exists() {
        println!("INCONCLUSIVE property=C20 reason=native workload binary missing (tools/pre_C20.sh builds it)");
        return 2;
    }
    for k in 0..rounds {
        let Some(r) = run_round(&native, &[threads, "20"], &[]) else { continue };
        st.bump("cases");
        st.bump("native_rounds");
        st.add("thread_runs", 16);
        if !r.order.is_empty() {
            orders.insert(r.order.clone());
            *winners.entry(r.order.split(',').next().unwrap_or("").to_string()).or_default() += 1;
        }
        if !r.digest.is_empty() {
            digests.insert(r.digest.clone());
        }
        st.class(("native", r.order.clone()));
        if !r.ok || !r.mismatches.is_empty() {
            st.violation(
                format!("native|{}", r.mismatches.first().cloned().unwrap_or_else(|| format!("exit status {:?}", r.status)).chars().take(80).collect::<String>()),
                k,
                json!({"kind": "concurrent-run-differs-from-sequential", "round": k, "arrival_order": r.order, "mismatches": r.mismatches, "exit_status": r.status, "stderr": r.stderr.chars().take(600).collect::<String>(), "reproduce": format!("{} 16 20", native.display())}),
            );
        }
    }
    if digests.len() > 1 {
        st.violation("native|digest-differs-between-processes".into(), 0, json!({"kind": "non-deterministic-results-across-processes", "digests": digests}));
    }
    // (2) ThreadSanitizer
    if tsan.exists() {
        for k in 0..tsan_rounds {
            let Some(r) = run_round(&tsan, &["8", "6"], &[("TSAN_OPTIONS", "halt_on_error=1 exitcode=66 report_signal_unsafe=0")]) else { continue };
            st.bump("cases");
            st.bump("tsan_rounds");
            st.add("thread_runs", 8);
            if !r.order.is_empty() {
                orders.insert(format!("tsan:{}", r.order));
                st.class(("tsan", r.order.clone()));
            }
            let report = r.stderr.contains("ThreadSanitizer");
            if report || r.status == Some(66) {
                let first = r.stderr.lines().find(|l| l.contains("ThreadSanitizer")).unwrap_or("").to_string();
                st.violation(format!("tsan|{first}"), k, json!({"kind": "thread-sanitizer-report", "round": k, "report": r.stderr.chars().take(3000).collect::<String>(), "reproduce": format!("{} 8 6", tsan.display())}));
            } else if !r.ok || !r.mismatches.is_empty() {
                st.violation(format!("tsan-run|{:?}", r.mismatches.first()), k, json!({"kind": "concurrent-run-differs-from-sequential", "under": "ThreadSanitizer", "mismatches": r.mismatches, "exit_status": r.status, "stderr": r.stderr.chars().take(600).collect::<String>()}));
            }
        }
    }
    // (3) Miri: data races and undefined behaviour under different schedules
    let miri = Command::new("cargo")
        .current_dir(ctx.verif_dir.join("c20w"))
        .args(["+nightly", "miri", "run", "--offline", "--", "3", "1", "1", "lenient"])
        .env("MIRIFLAGS", format!("-Zmiri-disable-isolation -Zmiri-many-seeds={}..{}", ctx.seed % 1000, ctx.seed % 1000 + miri_seeds as u64))
        .env("CARGO_TARGET_DIR", ctx.verif_dir.join("target/c20w_miri"))
        .env("CARGO_NET_OFFLINE", "true")
        .output();
    match miri {
        Ok(o) => {
            let err = String::from_utf8_lossy(&o.stderr).to_string();
            let out = String::from_utf8_lossy(&o.stdout).to_string();
            let oks = out.matches("C20W-OK").count();
            st.add("miri_seeds_completed", oks as u64);
            st.add("cases", oks as u64);
            st.add("thread_runs", 3 * oks as u64);
            for l in out.lines().filter(|l| l.starts_with("ORDER ")) {
                orders.insert(format!("miri:{}", &l[6..]));
                st.class(("miri", l.to_string()));
            }
            if err.contains("Undefined Behavior") || err.contains("Data race detected") || err.contains("data race") {
                let first = err.lines().find(|l| l.contains("error:")).unwrap_or("").to_string();
                st.violation(format!("miri|{first}"), 0, json!({"kind": "miri-report", "report": err.lines().filter(|l| !l.starts_with("warning")).take(60).collect::<Vec<_>>().join("\n")}));
            } else if !o.status.success() {
                st.bump("miri_infrastructure_failures_not_judged");
                println!("note: miri did not complete ({:?}); tail: {}", o.status.code(), err.lines().rev().take(5).collect::<Vec<_>>().join(" | "));
            }
        }
        Err(e) => {
            st.bump("miri_infrastructure_failures_not_judged");
            println!("note: could not start miri: {e}");
        }
    }
    st.add("distinct_arrival_orders_observed", orders.len() as u64);
    st.add("distinct_threads_that_won_first_use_initialisation", winners.len() as u64);
    st.sample(json!({"one_round": "16 threads behind a barrier parse 5 float + 4 value texts from a cold start, then evaluate the shared expressions 20x at per-thread points, interleaved with clone / to_deepex / from_deepex / partial / unparse", "arrival_orders_sample": orders.iter().take(3).collect::<Vec<_>>(), "first_use_winners": winners}));
    let report = Report::new(
        "the thread workload c20w in (1) fresh native processes (16 threads released by a barrier parse the same texts from a cold start - first use of the global regexes and literal matchers - then evaluate shared Arc'd FlatEx / DeepEx / FlatExVal at per-thread points, interleaved with clone, conversions, partial, unparse; afterwards the same is done sequentially and every thread's results must be bit-identical, every parsed expression == and Debug-identical to the sequentially parsed one, the Debug dump of the shared expressions unchanged; the result digest must be identical across processes), (2) the same under ThreadSanitizer (std rebuilt with -Zbuild-std), (3) under Miri with several scheduler seeds (data races / UB; value comparisons are not judged there because Miri randomises float intrinsics and function-pointer addresses). (4) evaluation-history independence, in-process: a deep expression that was evaluated before is put through arithmetic with neutral elements carrying other variables, operate_binary, subs, partial and conversion and must give the same variables, text and bit-identical values as a never-evaluated copy. The Send + Sync half is a compile-time assertion crate built first. distinct_nontrivial = distinct thread arrival orders observed at the first-use initialisation.",
    )
    .assume("observed interleavings only; the type-level Send/Sync fact is the compiler's")
    .require("native_rounds", 20)
    .require("evaluation_history_cases", 1000)
    .require("tsan_rounds", 3)
    .require("miri_seeds_completed", 1)
    .require("distinct_arrival_orders_observed", 5);
    finish(ctx, st, report)
}
