//! C01 Evaluation follows the documented operator semantics.
//!
//! Events: (table, tree, text) -> FlatEx::parse(text).eval(Var(0..n)) over the term algebra; the
//! returned term is the applied tree. Oracle: AC-normal-form equality with the reference tree.
//! Second instantiation: the wrapping i64 ring with exact value equality.
use crate::core::{catch, finish, run_workers, share, Ctx, Report, Stats};
use crate::rng::Rng;
use crate::sym::{install, table_desc, Table};
use crate::tree::*;
use crate::treecase::{expect, first_mismatch_with, record_tree_violation, used_ops_desc};
use crate::w64::{reference_w64, DW, FW, W64};
use exmex::Express;
use serde_json::json;

const PATHS: &[&str] = &["flat", "flat_wo", "flat_vec", "flat_iter", "flat_wo_vec"];

pub fn tree_size(rng: &mut Rng) -> usize {
    match rng.below(100) {
        0..=64 => rng.range(1, 12),
        65..=87 => rng.range(13, 40),
        88..=96 => rng.range(41, 80),
        _ => rng.range(60, 200),
    }
}

/// structural features of a case, counted for the evidence
pub fn features(t: &Tree, table: &Table, st: &mut Stats) {
    fn go(t: &Tree, table: &Table, f: &mut [bool; 5]) {
        match t {
            Tree::Un(o, a) => {
                if matches!(**a, Tree::Bin(..)) {
                    f[0] = true;
                }
                if let Tree::Un(o2, _) = **a {
                    if !table[*o].is_alpha() && !table[o2].is_alpha() {
                        f[1] = true;
                    }
                }
                go(a, table, f)
            }
            Tree::Bin(o, a, b) => {
                let bo = table[*o].bin.as_ref().unwrap();
                for c in [a, b] {
                    if let Tree::Bin(co, _, _) = **c {
                        let bc = table[co].bin.as_ref().unwrap();
                        if co != *o && bc.prio == bo.prio {
                            f[2] = true;
                            if bc.comm != bo.comm {
                                f[3] = true;
                            }
                        }
                    }
                    if matches!(**c, Tree::Lit(_)) {
                        f[4] = true;
                    }
                }
                go(a, table, f);
                go(b, table, f)
            }
            _ => {}
        }
    }
    let mut f = [false; 5];
    go(t, table, &mut f);
    for (i, name) in ["trees_unary_over_group", "trees_sign_chain", "trees_equal_prio_neighbours", "trees_equal_prio_mixed_comm", "trees_literal_operand"].iter().enumerate() {
        if f[i] {
            st.bump(name);
        }
    }
    if t.n_leaves() > 64 {
        st.bump("trees_gt64_operands");
    }
    if t.n_leaves() > 32 {
        st.bump("trees_gt32_operands");
    }
    if t.vars().len() > 16 {
        st.bump("trees_gt16_vars");
    }
}

fn w64_case(tree: &Tree, table: &Table, text: &str, rng: &mut Rng, st: &mut Stats) {
    let vars = tree.vars();
    let vals: Vec<W64> = vars.iter().map(|_| W64(rng.next() as i64 >> rng.below(60))).collect();
    let want = reference_w64(tree, table, &vars, &vals);
    let run = |which: usize| -> Result<Result<W64, String>, String> {
        catch(|| match which {
            0 => FW::parse(text).and_then(|e| e.eval(&vals)).map_err(|e| e.msg().to_string()),
            1 => FW::parse_wo_compile(text).and_then(|e| e.eval(&vals)).map_err(|e| e.msg().to_string()),
            _ => DW::parse(text).and_then(|e| e.eval(&vals)).map_err(|e| e.msg().to_string()),
        })
    };
    for (i, name) in ["w64_flat", "w64_flat_wo", "w64_deep"].iter().enumerate() {
        st.bump("w64_evaluations");
        let got = run(i);
        let bad = match &got {
            Ok(Ok(v)) => *v != want,
            _ => true,
        };
        if bad {
            st.violation(
                format!("{name}|{}|{}", text, used_ops_desc(tree, table)),
                text.len() + 10_000,
                json!({"kind": "w64-case", "path": name, "text": text, "table": table_desc(table),
                       "values": vals.iter().map(|v| v.0).collect::<Vec<_>>(), "want": want.0, "got": format!("{got:?}")}),
            );
        }
    }
}

pub fn run(ctx: &Ctx) -> i32 {
    let n = ctx.n(320_000, 16_000_000);
    let stats = run_workers(ctx, 1, |w, rng, st| {
        let quota = share(n, w, ctx.threads);
        let mut table = gen_table(rng, &TableCfg::default());
        install(&table);
        let mut i = 0;
        while i < quota {
            if i % 24 == 0 {
                table = gen_table(rng, &TableCfg::default());
                install(&table);
                st.bump("tables");
            }
            let gcfg = GenCfg { lit_num: rng.below(10), un_num: rng.below(4), chain_num: rng.below(8), ..GenCfg::default() };
            let mut gcfg = gcfg;
            if rng.chance(1, 30) {
                // many variables: beyond the inline capacity of 16
                gcfg.vars = (0..rng.range(17, 40)).map(|k| format!("v{k}")).collect();
                gcfg.lit_num = 1;
            }
            let size = tree_size(rng);
            let tree = if rng.chance(1, 10) {
                st.bump("trees_long_single_level_chain");
                let n = rng.range(15, 130);
                gen_chain_tree(rng, &table, n, &gcfg)
            } else {
                gen_tree(rng, &table, size, &gcfg)
            };
            st.bump("trees");
            features(&tree, &table, st);
            st.class(tree.shape_key(&table));
            let ex = expect(&tree, &table);
            for k in 0..2 {
                let rcfg = if k == 0 { RenderCfg::plain() } else { RenderCfg::random(rng) };
                let text = render(&tree, &table, rng, &rcfg);
                st.bump("cases");
                i += 1;
                if k == 1 && st.samples.len() < st.max_samples && tree.n_leaves() > 3 && tree.n_leaves() < 9 {
                    st.sample(json!({"text": text, "table": table_desc(&table), "expected_term_mod_AC": format!("{:?}", ex.norm)}));
                }
                if let Some((path, m)) = first_mismatch_with(&ex, &text, PATHS) {
                    record_tree_violation(st, &tree, &table, &text, path, &m, PATHS, None);
                }
                if k == 1 && rng.chance(1, 3) {
                    w64_case(&tree, &table, &text, rng, st);
                }
            }
        }
    });
    let report = Report::new(
        "tree-first: random operator table (2-10 binary, 1-5 unary, dual, constants; priorities 0..=99 with half of the tables squeezed into 1-4 distinct values), random reference tree of 1..200 operands, rendered plainly and with random redundant parentheses / spaces / braces / unary juxtaposition; judged on FlatEx::parse and parse_wo_compile over the term algebra (AC-normal-form equality with the reference tree) and on the wrapping-i64 ring (exact value equality, flat, uncompiled, deep). distinct_nontrivial = number of distinct (tree shape, priority pattern, commutativity pattern) classes.",
    )
    .assume("operator priorities within 0..=99; one parenthesis level outweighs any priority difference")
    .assume("operators flagged commutative are treated as associative-commutative by the oracle (that is the freedom the property grants)")
    .require("trees_equal_prio_neighbours", 100)
    .require("trees_equal_prio_mixed_comm", 50)
    .require("trees_unary_over_group", 100)
    .require("trees_gt64_operands", 10)
    .require("trees_gt16_vars", 5)
    .require("w64_evaluations", 1000);
    finish(ctx, stats, report)
}
