//! C06 No input text can crash the library.
use crate::core::{catch, finish, panic_site, run_workers, share, Ctx, Report, Stats};
use crate::rng::Rng;
use exmex::prelude::*;
use exmex::{DeepEx, FloatOpsFactory, MissingOpMode, NumberMatcher, Val};
use serde_json::json;
use std::sync::atomic::{AtomicBool, AtomicU64, Ordering};
use std::sync::{Arc, Mutex};
use std::time::Instant;

/// nesting depth (parentheses) and rough token count of a text
fn shape(text: &str) -> (usize, usize) {
    let (mut d, mut maxd) = (0i64, 0i64);
    let mut tokens = 0;
    let mut prev_alnum = false;
    for c in text.chars() {
        if c == '(' {
            d += 1;
            maxd = maxd.max(d);
        } else if c == ')' {
            d -= 1;
        }
        let alnum = c.is_alphanumeric() || c == '.' || c == '_';
        if !c.is_whitespace() && !(alnum && prev_alnum) {
            tokens += 1;
        }
        prev_alnum = alnum;
    }
    (maxd.max(0) as usize, tokens)
}

/// everything that may be done with a text over the float table
pub fn follow_f64(s: &str, heavy: bool) {
    if let Ok(f) = FlatEx::<f64>::parse(s) {
        let n = f.var_names().len();
        let v = vec![0.7; n];
        let _ = f.eval(&v);
        let _ = f.eval_relaxed(&v);
        let _ = f.eval_vec(v.clone());
        let _ = f.eval_iter(v.clone().into_iter());
        let _ = f.unparse();
        let _ = format!("{f}");
        let _ = f.unary_reprs();
        let _ = f.binary_reprs();
        let _ = f.operator_reprs();
        let _ = f.var_indices_ordered();
        if let Ok(ser) = serde_json::to_string(&f) {
            let _ = serde_json::from_str::<FlatEx<f64>>(&ser).map(|b| b.eval(&v));
        }
        if let Ok(d) = f.clone().to_deepex() {
            let _ = d.eval(&v);
            let _ = d.unparse();
            let _ = d.operator_reprs();
            if let Ok(f2) = FlatEx::<f64>::from_deepex(d.clone()) {
                let _ = f2.eval(&v);
            }
            if heavy && n > 0 {
                let _ = d.partial(0).map(|p| p.eval(&v));
            }
        }
        if heavy {
            if n > 0 {
                let _ = f.clone().partial(n - 1).map(|p| p.eval(&v));
                let _ = f.clone().partial_relaxed(0, MissingOpMode::PerOperand).map(|p| p.eval(&v));
                let _ = f.clone().partial_relaxed(0, MissingOpMode::None).map(|p| p.eval(&v));
                let _ = f.clone().partial_nth(0, 2).map(|p| p.eval(&v));
            }
            let _ = f.clone().partial(0);
            let _ = f.clone().operate_unary("sin").map(|p| p.eval(&v));
            let _ = f.clone().operate_binary(f.clone(), "*").map(|p| p.eval(&v));
        }
    }
    if let Ok(f) = FlatEx::<f64>::parse_wo_compile(s) {
        let n = f.var_names().len();
        let v = vec![0.7; n];
        let _ = f.eval(&v);
        let _ = f.clone().to_deepex().map(|d| d.eval(&v));
        let mut g = f.clone();
        g.compile();
        let _ = g.eval(&v);
    }
    if let Ok(d) = DeepEx::<f64>::parse(s) {
        let n = d.var_names().len();
        let v = vec![0.7; n];
        let _ = d.eval(&v);
        let _ = d.eval_relaxed(&v);
        let _ = d.unparse();
        let _ = d.unary_reprs();
        let _ = d.binary_reprs();
        if let Ok(f2) = FlatEx::<f64>::from_deepex(d.clone()) {
            let _ = f2.eval(&v);
            let _ = f2.to_deepex();
        }
        if heavy && n > 0 {
            let _ = d.clone().partial(0).map(|p| p.eval(&v));
            let _ = d.subs(&mut |_: &str| DeepEx::<f64>::parse("1+y").ok()).map(|e| e.eval(&[0.3]));
        }
    }
    let _ = exmex::eval_str::<f64>(s);
    let _ = exmex::eval_str::<f32>(s);
    let _ = exmex::parse::<f32>(s).map(|e| {
        let n = e.var_names().len();
        e.eval(&vec![0.7f32; n])
    });
    let _ = exmex::statements::line_2_statement::<f64, FloatOpsFactory<f64>, NumberMatcher>(s);
}

pub fn follow_val(s: &str, heavy: bool) {
    if let Ok(f) = exmex::parse_val::<i32, f64>(s) {
        let n = f.var_names().len();
        for v in [Val::Float(0.7), Val::Int(3), Val::Int(i32::MIN), Val::Bool(true), Val::None, Val::Array(smallvec::smallvec![1.0, 2.0, 3.0])] {
            let vals: Vec<Val<i32, f64>> = vec![v; n];
            let _ = f.eval(&vals);
        }
        let v: Vec<Val<i32, f64>> = vec![Val::Float(0.7); n];
        let _ = f.unparse();
        let _ = f.operator_reprs();
        if let Ok(ser) = serde_json::to_string(&f) {
            let _ = serde_json::from_str::<exmex::FlatExVal<i32, f64>>(&ser).map(|b| b.eval(&v));
        }
        if let Ok(d) = f.clone().to_deepex() {
            let _ = d.eval(&v);
            let _ = d.unparse();
            let _ = exmex::FlatExVal::<i32, f64>::from_deepex(d.clone()).map(|f2| f2.eval(&v));
            if heavy && n > 0 {
                let _ = d.partial(0).map(|p| p.eval(&v));
            }
        }
        if heavy && n > 0 {
            let _ = f.clone().partial(0).map(|p| p.eval(&v));
        }
    }
    if let Ok(d) = DeepEx::<Val<i32, f64>, exmex::ValOpsFactory<i32, f64>, exmex::ValMatcher>::parse(s) {
        let n = d.var_names().len();
        let _ = d.eval(&vec![Val::Float(0.7); n]);
        let _ = d.unparse();
        let _ = d.operator_reprs();
        let _ = exmex::FlatExVal::<i32, f64>::from_deepex(d).map(|f2| f2.eval(&vec![Val::Int(2); n]));
    }
    let _ = exmex::line_2_statement_val::<i32, f64>(s);
    if let Ok(f) = exmex::parse_val::<i64, f32>(s) {
        let n = f.var_names().len();
        let _ = f.eval(&vec![Val::Int(i64::MIN); n]);
        let _ = f.eval(&vec![Val::Float(0.5f32); n]);
    }
    // the narrowest integer type: whatever is counted or converted must fit or become an error value
    if let Ok(f) = exmex::parse_val::<i8, f32>(s) {
        let n = f.var_names().len();
        let _ = f.eval(&vec![Val::Int(i8::MIN); n]);
        let _ = f.eval(&vec![Val::Int(i8::MAX); n]);
        let _ = f.eval(&vec![Val::Float(300.5f32); n]);
        let long: Val<i8, f32> = Val::Array(smallvec::SmallVec::from_vec(vec![0.5f32; 130]));
        let _ = f.eval(&vec![long.clone(); n]);
        let _ = f.eval_vec(vec![long; n]);
    }
}

struct Watch {
    slots: Vec<Mutex<Option<(Instant, String)>>>,
    done: AtomicBool,
    slowest_us: AtomicU64,
}

/// runs one text through everything; panics are violations
fn run_text(text: &str, heavy_ok: bool, w: usize, watch: &Watch, st: &mut Stats, family: &str) {
    let (depth, tokens) = shape(text);
    let heavy = heavy_ok && depth <= 20 && tokens <= 80;
    *watch.slots[w].lock().unwrap() = Some((Instant::now(), text.to_string()));
    let t0 = Instant::now();
    let r1 = catch(|| follow_f64(text, heavy));
    let r2 = catch(|| follow_val(text, heavy));
    let us = t0.elapsed().as_micros() as u64;
    watch.slowest_us.fetch_max(us, Ordering::Relaxed);
    *watch.slots[w].lock().unwrap() = None;
    st.bump("cases");
    st.bump(&format!("family: {family}"));
    st.max("max_tokens_in_a_text", tokens as u64);
    st.max("max_nesting_depth", depth as u64);
    for (which, r) in [("float entry points", r1), ("value entry points", r2)] {
        if let Err(m) = r {
            let site = panic_site(&m);
            if st.violations.iter().filter(|v| v.sig.starts_with(&format!("panic|{site}"))).count() < 3 {
                st.violation(format!("panic|{site}|{text}"), text.len(), json!({"kind": "panic", "entry_points": which, "text": text, "panic": m, "family": family}));
            } else {
                st.bump("violations_raw");
            }
        }
    }
}

const ALPHABET: &[&str] = &["+", "*", "sin", "atan2", "x", "1", ".", "{", "}", "(", ")", ",", " ", "é"];

const SOUP: &[&str] = &[
    "+", "-", "*", "/", "^", "sin", "cos", "ln", "abs", "atan2", "min", "max", "(", ")", "(", ")", ",", "x", "y", "{z}", "{", "}", "1", "2", "3.5", ".5", "4.", " ", " ", "PI", "e", "E", "π", "τ",
    "α", "ab", "=", "if", "else", ">", "<=", "==", "&&", "true", "[1,2]", "[", "]", ".", "%", "<<", "fact", "to_int", "1e10", "99999999999", "\t", "é", "👍", "\\", "#", "sqrt", "log", "log2", "exp",
    "tanh", "signum", "0", "0.0", "-", "-", "\n", "\u{0}", "\u{7f}", "\u{200b}", "∞", "٣", "x", "1", "||", "!=", "XOR", "dot", "cross", "length", "to_float", ">>", "|", "&", "false", "10000000000.0",
    "2147483647", "2147483648", "9223372036854775807", "9223372036854775808", "0.0000001", "1/0", "0/0",
];

const CORPUS: &[&str] = &[
    "sin(1+y)*x", "--sin ( z) +  {another var} + 1 + 2", "1.5 * ((cos(2*π) + 23.0) / 2.0)", "α * ln(z) + 2* (-z^2 + sin(4*y))", "ln({👍+👎})", "atan2(0.2/y, x)", "1 / a + b ^ 2.5 * c",
    "x*0.2*5/4+x*2*4*1*1*1*1*1*1*1+2+3+7*sin(y)-z/sin(3.0/2/(1-x*4*1*1*1*1))", "+-+x", "-y*(x*(-(1-y))) + 1.7", "5*{χ} +  4*log2(ln(1.5+γ))*({χ}*-(tan(cos(sin(652.2-{γ}))))) + 3*{χ}",
    "xo-17-(((((((((((((((((((((((((((((((((((((expWW-tr-3746-4+sinnex-nn--nnexpWW-tr-7492-4+4-nsqrnexq+---------282)-384", "fi.g", "(nc7)sqrtE", "a12 (1)", ")+12-(1+1) / (", "12-() ())",
    "2sin({x})", "1.0 if x > y else 73", "5 else 3", "fact(3.5)", "dot(v, [1, 0, 0])", "(v + [1, 0, 0]).2", "x^y", "to_int(10000000000.0)", "max(1, min(2,3))", "x = 123", "f(x, y) = x + y",
    "0-sin(3.14159265358979 / 2)", "E ^ Erwin", "sin({myvwmlf4i😎8eo;w/-sin(a)r_25})", "1& &(x)", "x if 0.5<2 else y", "(0-2147483647-1) % (0-1)", "-(0-2147483647-1)", "2.0 ^ 99999999999",
];

fn exhaustive(ctx: &Ctx, w: usize, watch: &Watch, st: &mut Stats) {
    let max_len = if ctx.is_quick() { 4 } else { 6 };
    let mut idx = 0usize;
    for len in 1..=max_len {
        for sel in 0..ALPHABET.len().pow(len as u32) {
            idx += 1;
            if idx % ctx.threads != w {
                continue;
            }
            let text: String = (0..len).map(|k| ALPHABET[(sel / ALPHABET.len().pow(k as u32)) % ALPHABET.len()]).collect();
            st.class(("exh", sel, len));
            run_text(&text, true, w, watch, st, "exhaustive short strings");
        }
    }
}

fn nested(rng: &mut Rng, depth: usize) -> String {
    let mut s = String::new();
    let opens = ["(1+x*", "(", "sin(", "-(", "max(1,", "(y^", "atan2(x,2*(", "((", "{v}*(", "ln(abs("];
    let mut closes: Vec<&str> = vec![];
    for _ in 0..depth {
        let k = rng.below(opens.len());
        s.push_str(opens[k]);
        closes.push(match k {
            6 => "))",
            7 => "))",
            9 => "))",
            _ => ")",
        });
    }
    s.push_str(["x", "1", "x+1", "", ")"][rng.below(5)]);
    for c in closes.iter().rev() {
        if rng.chance(1, 60) {
            continue;
        }
        s.push_str(c);
        if rng.chance(1, 8) {
            s.push_str(["+1", "*x", "^2", " ", "-y"][rng.below(5)]);
        }
    }
    s
}

/// value-typed texts: small arrays of every length, the vector operators and what surrounds them
const VSOUP: &[&str] = &[
    "[1]", "[2.5]", "[1,2]", "[0.5, 1]", "[1,2,3]", "[4,5,6]", "[1,2,3,4]", "[1,2,3,4,5]", "[0]", " cross ", " dot ", "cross", "dot", "length", "(", ")", ",", ".", ".0", ".1", ".2", ".5", "+", "-", "*", "/", "^", "%",
    "min", "max", "==", "<", "v", "w", "1", "2", "0.5", "-1", " if ", " else ", "&&", "to_float", "to_int", "abs", "-", "(", ")",
];

/// nesting behind the operators of the value table (right operands that are groups), depth 15..100
fn nested_val(rng: &mut Rng, depth: usize) -> String {
    let opens = ["x<(", "x>(", "1&(", "1|(", "x<=(", "x>=(", "x==(", "y!=(", "2+(", "x&&(", "x||(", "1<<(", "3>>(", "(", "-(", "2*(", "x/(", "x%(", "1 XOR (", "x if (", "1 else (", "min(1,", "(x<", "(1|"];
    // long runs of one opening are as interesting as mixtures
    let single = if rng.chance(1, 2) { Some(rng.below(opens.len())) } else { None };
    let mut s = String::new();
    for _ in 0..depth {
        s.push_str(opens[single.unwrap_or_else(|| rng.below(opens.len()))]);
    }
    s.push_str(["x", "1", "x<1", "true"][rng.below(4)]);
    for _ in 0..depth {
        s.push(')');
    }
    s
}

/// tokens taken from the shipped operator tables themselves (so that every operator of the
/// tables is driven, whatever they contain) plus operands, among them an array literal with more
/// components than the narrowest integer type can count
fn table_soup_tokens() -> Vec<String> {
    use exmex::MakeOperators;
    let mut t: Vec<String> = exmex::ValOpsFactory::<i32, f64>::make().iter().map(|o| o.repr().to_string()).collect();
    t.extend(FloatOpsFactory::<f64>::make().iter().map(|o| o.repr().to_string()));
    t.sort();
    t.dedup();
    let long = format!("[{}]", vec!["0"; 130].join(","));
    for extra in ["(", ")", "(", ")", ",", " ", "x", "v", "1", "2", "2.5", "[1,2,3]", "[1]", "[4,5]", "0", "-1", "true"] {
        t.push(extra.to_string());
    }
    t.push(long.clone());
    t.push(long);
    t
}

fn mutate(rng: &mut Rng, base: &str) -> String {
    let mut chars: Vec<char> = base.chars().collect();
    for _ in 0..rng.range(1, 4) {
        let pos = rng.below(chars.len() + 1);
        match rng.below(6) {
            0 if !chars.is_empty() => {
                chars.remove(pos.min(chars.len() - 1));
            }
            1 => {
                let ins: Vec<char> = rng.pick(SOUP).chars().collect();
                for (k, c) in ins.into_iter().enumerate() {
                    chars.insert((pos + k).min(chars.len()), c);
                }
            }
            2 if !chars.is_empty() => {
                let p = pos.min(chars.len() - 1);
                chars[p] = *rng.pick(&['(', ')', '{', '}', ',', ' ', '.', '0', 'é', '👍', '\u{0}', '-', 'e', '=', '[', ']']);
            }
            3 if chars.len() > 2 => {
                let a = rng.below(chars.len());
                let b = rng.below(chars.len());
                chars.swap(a, b);
            }
            4 if !chars.is_empty() => {
                let p = pos.min(chars.len() - 1);
                let c = chars[p];
                chars.insert(p, c);
            }
            _ => {
                let k = rng.below(chars.len() + 1);
                chars.truncate(k.max(1).min(chars.len()));
            }
        }
    }
    chars.into_iter().collect()
}

pub fn run(ctx: &Ctx) -> i32 {
    let n_soup = ctx.n(400_000, 20_000_000);
    let n_long = ctx.n(600, 30_000);
    let n_mut = ctx.n(200_000, 10_000_000);
    let watch = Arc::new(Watch { slots: (0..ctx.threads).map(|_| Mutex::new(None)).collect(), done: AtomicBool::new(false), slowest_us: AtomicU64::new(0) });
    // hang monitor: a single text that keeps a worker busy for minutes is reported
    let hang_limit = std::time::Duration::from_secs(if ctx.is_quick() { 120 } else { 600 });
    let wd = {
        let watch = watch.clone();
        let dir = ctx.verif_dir.clone();
        std::thread::spawn(move || {
            while !watch.done.load(Ordering::Relaxed) {
                std::thread::sleep(std::time::Duration::from_millis(500));
                for s in &watch.slots {
                    if let Some((t0, text)) = s.lock().unwrap().clone() {
                        if t0.elapsed() > hang_limit {
                            let rdir = dir.join("replays").join("C06");
                            let _ = std::fs::create_dir_all(&rdir);
                            let p = rdir.join("hang.json");
                            let _ = std::fs::write(&p, serde_json::to_string_pretty(&json!({"property": "C06", "kind": "hang", "text": text, "seconds": t0.elapsed().as_secs()})).unwrap());
                            println!("VIOLATION property=C06 replay={}", p.display());
                            println!("    a single text kept the library busy for more than {} s (typical: microseconds)", hang_limit.as_secs());
                            std::process::exit(1);
                        }
                    }
                }
            }
        })
    };
    let inflight_dir = ctx.verif_dir.join("replays").join("C06");
    let _ = std::fs::create_dir_all(&inflight_dir);
    let stats = run_workers(ctx, 6, |w, rng, st| {
        exhaustive(ctx, w, &watch, st);
        // corpus, then mutations of it
        if w == 0 {
            for c in CORPUS {
                run_text(c, true, w, &watch, st, "corpus");
            }
        }
        for i in 0..share(n_mut, w, ctx.threads) {
            let base = CORPUS[(i + w) % CORPUS.len()];
            let t = mutate(rng, base);
            st.class(("mut", t.len(), i % 1000));
            run_text(&t, true, w, &watch, st, "mutated corpus");
        }
        // token soup
        for i in 0..share(n_soup, w, ctx.threads) {
            let len = match rng.below(20) {
                0 => rng.range(40, 200),
                _ => rng.range(1, 14),
            };
            let mut t = String::new();
            let vector = i % 8 == 5;
            for _ in 0..len.min(if vector { 9 } else { 200 }) {
                t.push_str(*rng.pick(if vector { VSOUP } else { SOUP }));
            }
            st.class(("soup", t.len(), i % 1000));
            run_text(&t, true, w, &watch, st, if vector { "vector token soup" } else { "token soup" });
        }
        // operator-table soup
        let tokens = table_soup_tokens();
        for i in 0..share(n_soup / 8, w, ctx.threads) {
            let len = rng.range(1, 7);
            let mut t = String::new();
            for _ in 0..len {
                t.push_str(rng.pick(&tokens[..]).as_str());
            }
            st.class(("table-soup", t.len().min(200), i % 1000));
            run_text(&t, true, w, &watch, st, "operator-table soup");
        }
        // long and deeply nested texts: parsing entry points on an 8 MiB stack (the default of a
        // main thread); the text in flight is written out first so that a stack overflow, which
        // kills the process, leaves a witness behind
        for i in 0..share(n_long, w, ctx.threads) {
            let text = match i % 4 {
                0 => {
                    let dd = rng.range(30, 100);
                    nested(rng, dd)
                }
                3 => {
                    let dd = rng.range(15, 100);
                    st.bump("texts_nested_behind_value_operators");
                    nested_val(rng, dd)
                }
                1 => {
                    let n = rng.range(200, 1000);
                    let mut t = String::new();
                    for k in 0..n {
                        if k > 0 {
                            t.push_str(["+", "*", "-", "/", "^", " min ", "+-"][rng.below(7)]);
                        }
                        t.push_str(["x", "1.5", "{y z}", "sin(x)", "(2)", "PI", "-3"][rng.below(7)]);
                    }
                    t
                }
                _ => {
                    let mut t = String::new();
                    for _ in 0..rng.range(200, 1000) {
                        t.push_str(*rng.pick(SOUP));
                    }
                    t
                }
            };
            let inflight = inflight_dir.join(format!("inflight_deep_case_worker{w}.txt"));
            let _ = std::fs::write(&inflight, &text);
            let t2 = text.clone();
            let (depth, tokens) = shape(&text);
            st.class(("long", depth, tokens));
            st.bump("texts_parsed_on_an_8MiB_stack");
            st.max("max_nesting_depth_on_8MiB_stack", depth as u64);
            st.max("max_tokens_on_8MiB_stack", tokens as u64);
            let h = std::thread::Builder::new().stack_size(8 << 20).spawn(move || {
                catch(|| {
                    let a = FlatEx::<f64>::parse(&t2).map(|e| e.eval(&vec![0.7; e.var_names().len()]));
                    let _ = FlatEx::<f64>::parse_wo_compile(&t2);
                    let d = DeepEx::<f64>::parse(&t2).map(|e| e.eval(&vec![0.7; e.var_names().len()]));
                    let _ = exmex::eval_str::<f64>(&t2);
                    let _ = exmex::parse_val::<i32, f64>(&t2);
                    let _ = exmex::parse_val::<i64, f32>(&t2);
                    let _ = exmex::line_2_statement_val::<i32, f64>(&t2);
                    let _ = exmex::statements::line_2_statement::<f64, FloatOpsFactory<f64>, NumberMatcher>(&t2);
                    (a.is_ok(), d.is_ok())
                })
            });
            match h.expect("spawn").join() {
                Ok(Ok((a, d))) => {
                    if a {
                        st.bump("long_texts_accepted_by_flat");
                    }
                    if d {
                        st.bump("long_texts_accepted_by_deep");
                    }
                }
                Ok(Err(m)) => st.violation(format!("panic-long|{}", panic_site(&m)), text.len(), json!({"kind": "panic", "text": text.chars().take(2000).collect::<String>(), "panic": m, "family": "long / deeply nested"})),
                Err(_) => st.violation("panic-long|thread".into(), text.len(), json!({"kind": "panic", "text": text.chars().take(2000).collect::<String>()})),
            }
            let _ = std::fs::remove_file(&inflight);
            // the follow-ups of a long text run on the big worker stack, without differentiation
            run_text(&text, false, w, &watch, st, "long / deeply nested");
        }
        if w == 0 {
            st.sample(json!({"family": "exhaustive short strings", "example": "sin{(atan2"}));
            st.sample(json!({"family": "mutated corpus", "example": mutate(rng, CORPUS[3])}));
            st.sample(json!({"family": "long / deeply nested", "example": nested(rng, 12)}));
        }
    });
    watch.done.store(true, Ordering::Relaxed);
    let _ = wd.join();
    let mut stats = stats;
    stats.max("max_slowest_single_text_microseconds", watch.slowest_us.load(Ordering::Relaxed));
    let mut report = Report::new(
        "every text goes through ALL entry points (FlatEx::parse, parse_wo_compile, DeepEx::parse, exmex::parse::<f32>, eval_str f32/f64, parse_val i32/f64, i64/f32 and i8/f32, line_2_statement, line_2_statement_val) and, for each Ok, the follow-ups (eval / eval_relaxed / eval_vec / eval_iter with a correct-length slice, for Val also with hostile values, unparse, Display, the three operator listings, to_deepex / from_deepex, compile, serde round trip, operate_unary/binary, subs, partial / partial_relaxed (all modes) / partial_nth for texts of <= 80 tokens and nesting <= 20), each under catch_unwind on a 1 GiB stack. Families: ALL strings of <= 4 (quick) / <= 6 (thorough) tokens over a 14-symbol alphabet (dual operator, binary operator, unary, call-style operator, identifier, number, '.', '{', '}', '(', ')', ',', space, a multi-byte character); token soup over ~100 tokens incl. unicode, control characters, huge literals; mutations (delete/insert/replace/swap/duplicate/truncate) of a corpus of the repository's own test strings; a soup over the names found in the shipped operator tables at run time plus operands incl. a 130-component array literal; a vector soup (arrays of length 1..5, cross, dot, length, component access) for the value-typed entry points; texts nested 15..100 levels behind the operators of the value table (`x<(x<(...))`, runs of one operator and mixtures); texts of 200..1000 tokens and nesting 30..100 whose parsing entry points run on an 8 MiB stack (the in-flight text is written to disk first, so a stack overflow leaves a witness). A hang monitor reports any single text that keeps a worker busy for minutes. distinct_nontrivial = enumerated strings + distinct (family, length, index) classes.",
    )
    .assume("recursion limits of the deep form beyond nesting 20 / 80 tokens are out of scope for differentiation (the property says so); stack exhaustion there is not judged")
    .require("family: exhaustive short strings", 10000)
    .require("family: token soup", 10000)
    .require("family: vector token soup", 5000)
    .require("family: operator-table soup", 5000)
    .require("texts_nested_behind_value_operators", 50)
    .require("family: mutated corpus", 10000)
    .require("texts_parsed_on_an_8MiB_stack", 100)
    .require("max_nesting_depth_on_8MiB_stack", 90)
    .require("max_tokens_on_8MiB_stack", 900);
    report.extra = json!({"exhaustive_subspace": format!("all strings of <= {} tokens over the alphabet {:?}", if ctx.is_quick() { 4 } else { 6 }, ALPHABET)});
    finish(ctx, stats, report)
}
