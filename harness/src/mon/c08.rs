//! C08 Function-call notation op(a, b) means ((a) op (b)) at any nesting.
use crate::core::{catch, finish, run_workers, share, Ctx, Report, Stats};
use crate::rng::Rng;
use crate::stdtables::{float_table, val_table};
use crate::sym::{install, intern, table_desc, BinSpec, OpSpec, Table};
use crate::tree::*;
use crate::treecase::{expect, first_mismatch_with, record_tree_violation};
use exmex::{DeepEx, Express, FlatEx, Val};
use serde_json::json;
use std::cell::RefCell;

const PATHS: &[&str] = &["flat", "flat_wo", "deep", "deep2flat"];

/// where calls occur in a rendered token list (measured, for the evidence)
fn call_stats(toks: &[Tok], st: &mut Stats) {
    // stack of (is_call_paren, seen_comma)
    let mut stack: Vec<(bool, bool)> = vec![];
    let mut max_depth = 0;
    for (i, t) in toks.iter().enumerate() {
        match t.kind {
            TK::Open => {
                let is_call = i > 0 && toks[i - 1].kind == TK::BinOp && {
                    // a call iff a top-level comma exists before the matching close
                    let close = matching_close(toks, i).unwrap_or(toks.len());
                    let mut d = 0;
                    let mut found = false;
                    for t2 in &toks[i + 1..close] {
                        match t2.kind {
                            TK::Open => d += 1,
                            TK::Close => d -= 1,
                            TK::Comma if d == 0 => found = true,
                            _ => {}
                        }
                    }
                    found
                };
                if is_call {
                    st.bump("calls_rendered");
                    let depth = stack.iter().filter(|s| s.0).count() + 1;
                    max_depth = max_depth.max(depth);
                    if let Some(parent) = stack.iter().rev().find(|s| s.0) {
                        st.bump(if parent.1 { "calls_nested_in_second_argument" } else { "calls_nested_in_first_argument" });
                    }
                    if stack.last().map(|s| !s.0).unwrap_or(false) {
                        st.bump("calls_inside_plain_parentheses");
                    }
                    if i >= 2 && toks[i - 2].kind == TK::UnOp {
                        st.bump("calls_under_juxtaposed_unary");
                    }
                    if i >= 2 && toks[i - 2].kind == TK::BinOp {
                        st.bump("calls_as_right_operand");
                    }
                    if !toks[i - 1].text.chars().next().unwrap().is_alphabetic() {
                        st.bump("calls_of_symbolic_operator");
                    }
                }
                stack.push((is_call, false));
            }
            TK::Close => {
                stack.pop();
            }
            TK::Comma => {
                if let Some(top) = stack.last_mut() {
                    top.1 = true;
                }
            }
            _ => {}
        }
    }
    st.max("max_call_nesting_depth", max_depth as u64);
}

fn shapes(k: usize) -> Vec<Vec<u8>> {
    // binary tree shapes with k internal nodes in pre-order: 1 = internal, 0 = leaf
    if k == 0 {
        return vec![vec![0]];
    }
    let mut out = vec![];
    for l in 0..k {
        for a in shapes(l) {
            for b in shapes(k - 1 - l) {
                let mut v = vec![1];
                v.extend(&a);
                v.extend(&b);
                out.push(v);
            }
        }
    }
    out
}

fn build(shape: &[u8], pos: &mut usize, ops: &[usize], opi: &mut usize, leaf: &mut usize) -> Tree {
    let s = shape[*pos];
    *pos += 1;
    if s == 0 {
        let t = if *leaf % 3 == 2 { Tree::lit("7") } else { Tree::var(["x", "y", "z", "w"][*leaf % 4]) };
        *leaf += 1;
        t
    } else {
        let o = ops[*opi];
        *opi += 1;
        let a = build(shape, pos, ops, opi, leaf);
        let b = build(shape, pos, ops, opi, leaf);
        Tree::bin(o, a, b)
    }
}

fn exhaustive(ctx: &Ctx, w: usize, st: &mut Stats) {
    let mut job = 0usize;
    for (prios, flags) in [([0i64, 0, 0], [false, false, false]), ([0, 1, 2], [true, false, true]), ([2, 1, 0], [false, true, false]), ([1, 1, 0], [true, true, true])] {
        let table: Table = vec![
            OpSpec { name: intern("mx"), bin: Some(BinSpec { slot: 0, prio: prios[0], comm: flags[0] }), un: None, constant: None },
            OpSpec { name: intern("+"), bin: Some(BinSpec { slot: 1, prio: prios[1], comm: flags[1] }), un: Some(1), constant: None },
            OpSpec { name: intern("%"), bin: Some(BinSpec { slot: 2, prio: prios[2], comm: flags[2] }), un: None, constant: None },
            OpSpec::un(intern("sin"), 3),
        ];
        for k in 1..=3usize {
            for shape in shapes(k) {
                for opsel in 0..3usize.pow(k as u32) {
                    let ops: Vec<usize> = (0..k).map(|j| (opsel / 3usize.pow(j as u32)) % 3).collect();
                    for mask in 1..(1u32 << k) {
                        for wrap in 0..2 {
                            job += 1;
                            if job % ctx.threads != w {
                                continue;
                            }
                            install(&table);
                            let (mut p, mut oi, mut lf) = (0, 0, 0);
                            let mut tree = build(&shape, &mut p, &ops, &mut oi, &mut lf);
                            if wrap == 1 {
                                tree = Tree::un(3, tree);
                            }
                            let script: Vec<bool> = (0..k).map(|j| mask >> j & 1 == 1).collect();
                            let cfg = RenderCfg { call: 1, call_alpha_only: false, call_script: Some(RefCell::new((script, 0))), ..RenderCfg::plain() };
                            let mut rng = Rng::new(1, 1);
                            let toks = render_tokens(&tree, &table, &mut rng, &cfg);
                            let text = join_tokens(&toks, &table, &mut rng, &cfg);
                            st.bump("cases");
                            st.bump("exhaustive_cases");
                            st.class(("exh", prios, shape.clone(), opsel, mask, wrap));
                            call_stats(&toks, st);
                            let ex = expect(&tree, &table);
                            if let Some((path, m)) = first_mismatch_with(&ex, &text, PATHS) {
                                let t2 = table.clone();
                                let rr = move |t: &Tree, _tb: &Table| {
                                    let mut rng = Rng::new(1, 1);
                                    render(t, &t2, &mut rng, &RenderCfg { call: 6, call_alpha_only: false, ..RenderCfg::plain() })
                                };
                                record_tree_violation(st, &tree, &table, &text, path, &m, PATHS, Some(&rr));
                            }
                        }
                    }
                }
            }
        }
    }
}

fn bits_eq(a: f64, b: f64) -> bool {
    a.to_bits() == b.to_bits() || (a.is_nan() && b.is_nan())
}

/// call text vs its literal expansion on the shipped tables
fn shipped_case(rng: &mut Rng, st: &mut Stats, use_val: bool) {
    let table = if use_val { val_table() } else { float_table() };
    let gcfg = GenCfg { lit_num: 4, const_num: 2, un_num: 2, chain_num: 3, vars: vec!["x".into(), "y".into(), "z".into()] };
    let size = rng.range(2, 9);
    let tree = gen_tree(rng, &table, size, &gcfg);
    let cfg = RenderCfg { call: rng.range(2, 6), call_alpha_only: rng.chance(1, 2), extra_paren: rng.below(3), juxta: rng.below(3), space: rng.below(3), brace: rng.below(3), call_script: None };
    let toks = render_tokens(&tree, &table, rng, &cfg);
    let plain = RenderCfg::plain();
    let t_call = join_tokens(&toks, &table, rng, &plain);
    let expanded = expand_calls(&toks);
    if expanded == toks {
        return;
    }
    let t_exp = join_tokens(&expanded, &table, rng, &plain);
    st.bump("cases");
    st.bump(if use_val { "val_table_cases" } else { "float_table_cases" });
    st.class((use_val, t_call.clone()));
    call_stats(&toks, st);
    let pts: Vec<[f64; 3]> = (0..3).map(|_| [rng.unit() * 4.0 - 1.0, rng.unit() * 3.0 + 0.1, rng.unit() * 10.0 - 5.0]).collect();
    let r = catch(|| -> Option<String> {
        if use_val {
            let a = exmex::parse_val::<i32, f64>(&t_call);
            let b = exmex::parse_val::<i32, f64>(&t_exp);
            match (a, b) {
                (Ok(a), Ok(b)) => {
                    if a.var_names() != b.var_names() {
                        return Some(format!("variables {:?} vs {:?}", a.var_names(), b.var_names()));
                    }
                    for (k, p) in pts.iter().enumerate() {
                        let vals: Vec<Val<i32, f64>> = (0..a.var_names().len()).map(|i| if (i + k) % 2 == 0 { Val::Float(p[i]) } else { Val::Int((p[i] * 3.0) as i32) }).collect();
                        let (va, vb) = (a.eval(&vals), b.eval(&vals));
                        if format!("{va:?}") != format!("{vb:?}") {
                            return Some(format!("at {vals:?}: call form {va:?}, expansion {vb:?}"));
                        }
                    }
                    None
                }
                (Err(e), Ok(_)) => Some(format!("call form rejected ({}) but its expansion is accepted", e.msg())),
                (Ok(_), Err(e)) => Some(format!("expansion rejected ({}) but call form accepted", e.msg())),
                (Err(_), Err(_)) => Some("skip".into()),
            }
        } else {
            for deep in [false, true] {
                let (a, b): (Result<(Vec<String>, Vec<f64>), String>, Result<(Vec<String>, Vec<f64>), String>) = if deep {
                    let f = |t: &str| DeepEx::<f64>::parse(t).map_err(|e| e.msg().to_string()).map(|e| (e.var_names().to_vec(), pts.iter().map(|p| e.eval(&p[..e.var_names().len()]).unwrap_or(f64::NAN)).collect()));
                    (f(&t_call), f(&t_exp))
                } else {
                    let f = |t: &str| FlatEx::<f64>::parse(t).map_err(|e| e.msg().to_string()).map(|e| (e.var_names().to_vec(), pts.iter().map(|p| e.eval(&p[..e.var_names().len()]).unwrap_or(f64::NAN)).collect()));
                    (f(&t_call), f(&t_exp))
                };
                match (a, b) {
                    (Ok(a), Ok(b)) => {
                        if a.0 != b.0 {
                            return Some(format!("variables {:?} vs {:?}", a.0, b.0));
                        }
                        if !a.1.iter().zip(b.1.iter()).all(|(x, y)| bits_eq(*x, *y)) {
                            return Some(format!("{} values: call form {:?}, expansion {:?}", if deep { "deep" } else { "flat" }, a.1, b.1));
                        }
                    }
                    (Err(e), Ok(_)) => return Some(format!("call form rejected ({e}) but its expansion is accepted")),
                    (Ok(_), Err(e)) => return Some(format!("expansion rejected ({e}) but call form accepted")),
                    (Err(_), Err(_)) => return Some("skip".into()),
                }
            }
            None
        }
    });
    let problem = match r {
        Err(m) => Some(format!("panic: {m}")),
        Ok(p) => p,
    };
    match problem {
        Some(p) if p == "skip" => st.bump("shipped_cases_both_rejected_not_judged"),
        Some(p) => st.violation(
            format!("shipped|{}|{}", if use_val { "val" } else { "float" }, t_call),
            t_call.len() + 500,
            json!({"kind": "call-vs-expansion", "table": if use_val {"ValOpsFactory<i32,f64>"} else {"FloatOpsFactory<f64>"}, "call_text": t_call, "expanded_text": t_exp, "problem": p}),
        ),
        None => st.bump("shipped_cases_agree"),
    }
}

pub fn run(ctx: &Ctx) -> i32 {
    let n = ctx.n(160_000, 8_000_000);
    let n_shipped = ctx.n(60_000, 2_000_000);
    let stats = run_workers(ctx, 8, |w, rng, st| {
        exhaustive(ctx, w, st);
        let quota = share(n, w, ctx.threads);
        let mut table = gen_table(rng, &TableCfg::default());
        for i in 0..quota {
            if i % 16 == 0 {
                table = gen_table(rng, &TableCfg::default());
                install(&table);
            }
            let gcfg = GenCfg { lit_num: rng.below(8), un_num: rng.below(4), chain_num: rng.below(8), ..GenCfg::default() };
            let size = match rng.below(10) {
                0..=6 => rng.range(2, 10),
                7..=8 => rng.range(11, 30),
                _ => rng.range(31, 70),
            };
            let tree = gen_tree(rng, &table, size, &gcfg);
            let cfg = RenderCfg { call: rng.range(1, 6), call_alpha_only: rng.chance(1, 2), extra_paren: rng.below(4), juxta: rng.below(4), space: rng.below(4), brace: rng.below(3), call_script: None };
            let toks = render_tokens(&tree, &table, rng, &cfg);
            let text = join_tokens(&toks, &table, rng, &cfg);
            st.bump("cases");
            st.bump("random_tree_cases");
            st.class((tree.shape_key(&table), toks.iter().filter(|t| t.kind == TK::Comma).count()));
            call_stats(&toks, st);
            let ex = expect(&tree, &table);
            // The meaning of a call must not depend on what the thread has parsed before: every
            // other case is preceded by texts in call form that are rejected half-way (a third
            // argument, an illegal character or the end of the text behind a comma).
            if i % 2 == 1 {
                let bins: Vec<&str> = table.iter().filter(|o| o.bin.is_some()).map(|o| o.name).collect();
                let op = *rng.pick(&bins);
                let inner = *rng.pick(&bins);
                let bad = match rng.below(5) {
                    0 => format!("{op}(1, 2, 3)"),
                    1 => format!("{op}(1, $)"),
                    2 => format!("{op}(x, {inner}(1, 2"),
                    3 => format!("({op}(x, y, {inner}(1, 2)))"),
                    _ => {
                        let cut = text.char_indices().filter(|(_, c)| *c == ',').map(|x| x.0).last();
                        match cut {
                            Some(c) => format!("{} $", &text[..=c]),
                            None => format!("{op}(1, 2, 3)"),
                        }
                    }
                };
                let rejected = crate::core::catch(|| (crate::sym::FX::parse(&bad).is_err(), crate::sym::DX::parse(&bad).is_err(), crate::sym::FX::parse_wo_compile(&bad).is_err()));
                if rejected == Ok((true, true, true)) {
                    st.bump("cases_preceded_by_a_rejected_call_text");
                }
            }
            if let Some((path, m)) = first_mismatch_with(&ex, &text, PATHS) {
                let t2 = table.clone();
                let rr = move |t: &Tree, _tb: &Table| {
                    let mut rng = Rng::new(1, 1);
                    render(t, &t2, &mut rng, &RenderCfg { call: 6, call_alpha_only: false, ..RenderCfg::plain() })
                };
                record_tree_violation(st, &tree, &table, &text, path, &m, PATHS, Some(&rr));
            }
            if st.samples.len() < st.max_samples && toks.iter().filter(|t| t.kind == TK::Comma).count() >= 2 && text.len() < 60 {
                st.sample(json!({"text": text, "table": table_desc(&table), "expected_term_mod_AC": format!("{:?}", ex.norm)}));
            }
        }
        let quota = share(n_shipped, w, ctx.threads);
        for i in 0..quota {
            shipped_case(rng, st, i % 2 == 0);
        }
    });
    let mut report = Report::new(
        "(1) exhaustive: every binary-tree shape with 1..3 operators over {alphabetic mx, dual +, %} x every operator assignment x every non-empty subset of nodes written as calls x {bare, under a unary function} x 4 priority/flag tables; (2) random trees (2..70 operands) over random tables with a random subset of binary nodes written in call form (symbolic and dual operators included), redundant parentheses, unary juxtaposition; judged on FlatEx (folded/unfolded), DeepEx and deep->flat against the reference tree, every other case after the same thread has parsed a call text that is rejected half-way; (3) on the shipped float and value tables the call text is compared with its literal expansion ((a) op (b)) - same acceptance, same variables, bit-identical values. Call positions are measured from the rendered tokens. distinct_nontrivial = enumerated cases + distinct (tree class, number of calls) + distinct shipped-table texts.",
    )
    .require("exhaustive_cases", 1000)
    .require("cases_preceded_by_a_rejected_call_text", 5000)
    .require("calls_nested_in_second_argument", 500)
    .require("calls_nested_in_first_argument", 500)
    .require("calls_inside_plain_parentheses", 100)
    .require("calls_under_juxtaposed_unary", 100)
    .require("calls_of_symbolic_operator", 500)
    .require("shipped_cases_agree", 1000);
    report.extra = json!({"exhaustive_subspace": "trees with <=3 binary operators x all shapes x all call/infix subsets"});
    finish(ctx, stats, report)
}
