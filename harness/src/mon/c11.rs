//! C11 Substitution replaces variables simultaneously and keeps the rest.
use crate::core::{catch, finish, run_workers, share, Ctx, Report, Stats};
use crate::rng::Rng;
use crate::sym::{install, table_desc, Table, DX, FX};
use crate::sympaths::{judge, observe};
use crate::tree::*;
use crate::treecase::expect;
use exmex::prelude::*;
use serde_json::json;
use std::collections::BTreeMap;

/// one-pass simultaneous substitution on the reference tree (replacements are not re-substituted)
fn model_subs(t: &Tree, m: &BTreeMap<String, Tree>) -> Tree {
    match t {
        Tree::Var(n) => m.get(n).cloned().unwrap_or_else(|| t.clone()),
        Tree::Un(o, a) => Tree::un(*o, model_subs(a, m)),
        Tree::Bin(o, a, b) => Tree::bin(*o, model_subs(a, m), model_subs(b, m)),
        _ => t.clone(),
    }
}

fn gen_map(rng: &mut Rng, table: &Table, vars: &[String], gcfg: &GenCfg, st: &mut Stats) -> BTreeMap<String, Tree> {
    let mut m = BTreeMap::new();
    let style = rng.below(8);
    match style {
        0 => {
            st.bump("maps_empty");
        }
        1 if vars.len() >= 2 => {
            // swap two variables
            st.bump("maps_swap");
            m.insert(vars[0].clone(), Tree::Var(vars[1].clone()));
            m.insert(vars[1].clone(), Tree::Var(vars[0].clone()));
        }
        2 => {
            // identity map
            st.bump("maps_identity");
            for v in vars {
                m.insert(v.clone(), Tree::Var(v.clone()));
            }
        }
        _ => {
            for v in vars {
                if rng.chance(1, 2) {
                    continue;
                }
                let r = match rng.below(6) {
                    0 => {
                        st.bump("replacements_constant");
                        Tree::lit(*rng.pick(LITS))
                    }
                    1 => {
                        st.bump("replacements_renaming");
                        Tree::var(["p", "q", "x", "y", "B", "Q", "a"][rng.below(7)])
                    }
                    2 => {
                        // mentions the replaced variable itself
                        st.bump("replacements_self_referential");
                        let bins: Vec<usize> = (0..table.len()).filter(|i| table[*i].bin.is_some()).collect();
                        Tree::bin(*rng.pick(&bins), Tree::Var(v.clone()), Tree::var(["y", "q", "x", "C", "v3", "A5"][rng.below(6)]))
                    }
                    _ => {
                        st.bump("replacements_compound");
                        let k = rng.range(1, 5);
                        gen_tree(rng, table, k, gcfg)
                    }
                };
                m.insert(v.clone(), r);
            }
        }
    }
    m
}

thread_local! {
    static MANY: std::cell::Cell<u64> = const { std::cell::Cell::new(0) };
}

fn problem(tree: &Tree, maps: &[BTreeMap<String, Tree>], table: &Table, deep: bool) -> Option<String> {
    let text = render_plain(tree, table);
    let r = catch(|| -> Option<String> {
        let mut cur_tree = tree.clone();
        enum E<'a> {
            F(FX),
            D(DX<'a>),
        }
        let texts: Vec<BTreeMap<String, String>> = maps.iter().map(|m| m.iter().map(|(k, v)| (k.clone(), render_plain(v, table))).collect()).collect();
        let mut cur = if deep { E::D(DX::parse(&text).ok()?) } else { E::F(FX::parse(&text).ok()?) };
        for (round, m) in maps.iter().enumerate() {
            cur_tree = model_subs(&cur_tree, m);
            let mt = &texts[round];
            cur = match cur {
                E::F(f) => {
                    let mut sub = |v: &str| mt.get(v).map(|t| FX::parse(t).expect("replacement parses"));
                    match f.subs(&mut sub) {
                        Ok(f) => E::F(f),
                        Err(e) => return Some(format!("round {round}: subs failed: {}", e.msg())),
                    }
                }
                E::D(d) => {
                    let mut sub = |v: &str| mt.get(v).map(|t| DX::parse(t).expect("replacement parses"));
                    match d.subs(&mut sub) {
                        Ok(d) => E::D(d),
                        Err(e) => return Some(format!("round {round}: subs failed: {}", e.msg())),
                    }
                }
            };
            let ex = expect(&cur_tree, table);
            if ex.vars.len() > 16 {
                MANY.with(|m| m.set(m.get() + 1));
            }
            let o = match &cur {
                E::F(f) => observe(f),
                E::D(d) => observe(d),
            };
            if let Some(mm) = judge(&o, &ex.vars, &ex.norm, &ex.comm) {
                return Some(format!("round {round}: {}", mm.describe()));
            }
        }
        None
    });
    match r {
        Ok(p) => p,
        Err(m) => Some(format!("panic: {m}")),
    }
}

/// The same over the real float type: replacements that list more variables than they use
/// (derivatives keep the variables of their antiderivative), constants that make the folded
/// result infinite or NaN, flat and deep.
fn float_case(rng: &mut Rng, st: &mut Stats) {
    use exmex::{DeepEx, FlatEx};
    let names = ["a", "b", "c", "x", "y"];
    let atom = |rng: &mut Rng| -> String {
        if rng.chance(1, 4) {
            ["2", "0.5", "3", "1"][rng.below(4)].to_string()
        } else {
            names[rng.below(names.len())].to_string()
        }
    };
    let mut text = atom(rng);
    for _ in 0..rng.range(1, 6) {
        let op = ["+", "-", "*", "/", "/"][rng.below(5)];
        let rhs = if rng.chance(1, 4) { format!("({}{}{})", atom(rng), ["+", "*", "-"][rng.below(3)], atom(rng)) } else { atom(rng) };
        text = if rng.chance(1, 5) { format!("sqrt({text}){op}{rhs}") } else { format!("{text}{op}{rhs}") };
    }
    let value_of = |name: &str| -> f64 { 0.5 + 0.37 * (name.bytes().map(|b| b as usize).sum::<usize>() % 11) as f64 };
    st.bump("cases");
    st.bump("float_type_cases");
    let deep = rng.chance(1, 2);
    // (variable, kind of replacement)
    let mut kinds: Vec<(usize, usize)> = vec![];
    for i in 0..names.len() {
        if rng.chance(1, 2) {
            kinds.push((i, rng.below(6)));
        }
    }
    let r = catch(|| -> Option<String> {
        let orig = FlatEx::<f64>::parse(&text).ok()?;
        let make = |kind: usize| -> Option<FlatEx<f64>> {
            match kind {
                0 => FlatEx::<f64>::parse("0").ok(),
                1 => FlatEx::<f64>::parse("-1").ok(),
                // leaves that list more variables than they use
                2 => FlatEx::<f64>::parse("p*q").ok()?.partial(0).ok(),
                3 => FlatEx::<f64>::parse("p+q").ok()?.partial(1).ok(),
                4 => FlatEx::<f64>::parse("2*p*q+r").ok()?.partial(0).ok()?.partial(1).ok(),
                _ => FlatEx::<f64>::parse("x/2+q").ok(),
            }
        };
        let repl: Vec<(String, FlatEx<f64>)> = kinds.iter().filter_map(|(i, k)| Some((names[*i].to_string(), make(*k)?))).filter(|(n, _)| orig.var_names().contains(n)).collect();
        // documented result
        let mut want_vars: Vec<String> = orig.var_names().iter().filter(|v| !repl.iter().any(|(n, _)| n == *v)).cloned().collect();
        for (_, e) in &repl {
            want_vars.extend(e.var_names().iter().cloned());
        }
        want_vars.sort();
        want_vars.dedup();
        let bound: Vec<f64> = orig
            .var_names()
            .iter()
            .map(|v| match repl.iter().find(|(n, _)| n == v) {
                Some((_, e)) => e.eval(&e.var_names().iter().map(|n| value_of(n)).collect::<Vec<_>>()).unwrap_or(f64::NAN),
                None => value_of(v),
            })
            .collect();
        let want = orig.eval(&bound).ok()?;
        let (got_vars, got): (Vec<String>, f64) = if deep {
            let d = DeepEx::<f64>::parse(&text).ok()?;
            let mut sub = |v: &str| repl.iter().find(|(n, _)| n == v).and_then(|(_, e)| e.clone().to_deepex().ok());
            let res = match d.subs(&mut sub) {
                Ok(r) => r,
                Err(e) => return Some(format!("subs failed: {}", e.msg())),
            };
            let vals: Vec<f64> = res.var_names().iter().map(|n| value_of(n)).collect();
            (res.var_names().to_vec(), res.eval(&vals).unwrap_or(f64::NAN))
        } else {
            let mut sub = |v: &str| repl.iter().find(|(n, _)| n == v).map(|(_, e)| e.clone());
            let res = match orig.clone().subs(&mut sub) {
                Ok(r) => r,
                Err(e) => return Some(format!("subs failed: {}", e.msg())),
            };
            let vals: Vec<f64> = res.var_names().iter().map(|n| value_of(n)).collect();
            (res.var_names().to_vec(), res.eval(&vals).unwrap_or(f64::NAN))
        };
        let desc: Vec<String> = repl.iter().map(|(n, e)| format!("{n} := {} over {:?}", e.unparse(), e.var_names())).collect();
        if got_vars != want_vars {
            return Some(format!("{text} with {desc:?}: variables {got_vars:?}, expected the sorted union {want_vars:?}"));
        }
        let same = (got.is_nan() && want.is_nan()) || got == want || (got.is_finite() && want.is_finite() && (got - want).abs() <= 1e-9 * want.abs().max(1.0));
        if !same {
            return Some(format!("{text} with {desc:?}: value {got}, the original with the replaced variables bound to their replacements' values gives {want}"));
        }
        None
    });
    let p = match r {
        Ok(p) => p,
        Err(m) => Some(format!("panic: {m}")),
    };
    if let Some(p) = p {
        st.violation(format!("float-subs|{}|{}", if deep { "deep" } else { "flat" }, p.chars().take(70).collect::<String>()), p.len(), json!({"kind": "substitution-f64", "form": if deep {"DeepEx"} else {"FlatEx"}, "problem": p}));
    }
}

pub fn run(ctx: &Ctx) -> i32 {
    let n = ctx.n(80_000, 4_000_000);
    let stats = run_workers(ctx, 11, |w, rng, st| {
        let quota = share(n, w, ctx.threads);
        let mut table = gen_table(rng, &TableCfg::default());
        for i in 0..quota {
            if i % 16 == 0 {
                table = gen_table(rng, &TableCfg::default());
                install(&table);
            }
            if i % 8 == 3 {
                float_case(rng, st);
            }
            // names whose byte order differs from their case-insensitive order; every fifth case has
            // more distinct names than the inline capacity of the name lists (16), with repetitions
            let many = i % 5 == 2;
            let vars: Vec<String> = if many {
                (0..rng.range(17, 30)).map(|k| format!("{}{}", ["v", "A", "w", "Z"][k % 4], k)).collect()
            } else {
                ["x", "y", "z", "p", "q", "a b", "B", "Zeta", "a", "C", "α", "Ω"].iter().map(|s| s.to_string()).collect()
            };
            let gcfg = GenCfg { lit_num: if many { 1 } else { rng.below(6) }, un_num: rng.below(3), vars, ..GenCfg::default() };
            let size = if many { rng.range(18, 50) } else { rng.range(1, 14) };
            if many {
                st.bump("cases_with_many_variables");
            }
            let tree = gen_tree(rng, &table, size, &gcfg);
            let rounds = rng.range(1, 3);
            let mut maps = vec![];
            let mut cur = tree.clone();
            for _ in 0..rounds {
                let m = gen_map(rng, &table, &cur.vars(), &gcfg, st);
                cur = model_subs(&cur, &m);
                maps.push(m);
            }
            let deep = rng.chance(1, 2);
            st.bump("cases");
            st.bump(if deep { "cases_deep" } else { "cases_flat" });
            st.add("substitution_rounds", rounds as u64);
            st.class((deep, tree.shape_key(&table), maps.iter().map(|m| m.len()).collect::<Vec<_>>()));
            let verdict = problem(&tree, &maps, &table, deep);
            st.add("results_with_more_than_16_variables", MANY.with(|m| m.replace(0)));
            if let Some(p) = verdict {
                if st.violations.len() < 6 {
                    let mut pred = |t: &Tree| problem(t, &maps, &table, deep).is_some();
                    let small = shrink_tree(&tree, &mut pred, 200);
                    let p = problem(&small, &maps, &table, deep).unwrap_or(p);
                    let mdesc: Vec<BTreeMap<String, String>> = maps.iter().map(|m| m.iter().map(|(k, v)| (k.clone(), render_plain(v, &table))).collect()).collect();
                    st.violation(
                        format!("subs|{}|{}|{:?}", if deep { "deep" } else { "flat" }, render_plain(&small, &table), mdesc),
                        render_plain(&small, &table).len() + mdesc.iter().map(|m| m.len() * 5).sum::<usize>(),
                        json!({"kind": "substitution", "form": if deep {"DeepEx"} else {"FlatEx"}, "text": render_plain(&small, &table), "maps": mdesc, "table": table_desc(&table), "problem": p}),
                    );
                } else {
                    st.bump("violations_raw");
                }
            } else if st.samples.len() < st.max_samples && size > 2 && size < 6 && !maps[0].is_empty() {
                let mdesc: Vec<BTreeMap<String, String>> = maps.iter().map(|m| m.iter().map(|(k, v)| (k.clone(), render_plain(v, &table))).collect()).collect();
                st.sample(json!({"text": render_plain(&tree, &table), "maps": mdesc, "result_reference": render_plain(&cur, &table)}));
            }
        }
    });
    let report = Report::new(
        "random trees (1..14 operands over mixed-case, Greek and braced variable names; every fifth case 18..50 operands over 17..30 distinct names with repetitions) x 1..3 rounds of partial maps variable -> expression (constants, renamings, swaps x:=y,y:=x, identity, empty map, compound replacements, replacements that mention the replaced variable itself) on FlatEx and DeepEx over the term algebra with random tables. Also over f64: replacements that are derivatives (they list more variables than they use) and constants that make the folded result infinite or NaN. Oracle: one-pass simultaneous substitution on the reference tree; after every round the variable list must be the sorted union of untouched and replacement variables and the term (mod AC) the substituted reference. distinct_nontrivial = distinct (form, tree shape, map sizes) classes.",
    )
    .require("maps_empty", 500)
    .require("float_type_cases", 5000)
    .require("cases_with_many_variables", 2000)
    .require("results_with_more_than_16_variables", 500)
    .require("maps_swap", 500)
    .require("maps_identity", 500)
    .require("replacements_self_referential", 1000)
    .require("replacements_constant", 1000)
    .require("substitution_rounds", 10000);
    finish(ctx, stats, report)
}
