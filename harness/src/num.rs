//! Numeric oracles: exact rationals, forward-mode dual numbers (nestable), reference evaluation
//! of trees over the default float operator names with interior-domain guards.
use crate::sym::Table;
use crate::tree::Tree;
use exmex::{BinOp, MakeOperators, Operator};
use std::fmt;
use std::str::FromStr;

// ---------------------------------------------------------------------------------------------
// exact rational arithmetic

/// Normalised fraction; `den == 0` is the poison value (overflow, division by zero, or a
/// function without rational values).
#[derive(Clone, Copy, PartialEq, Eq, Hash)]
pub struct Rat {
    pub num: i128,
    pub den: i128,
}

fn gcd(mut a: i128, mut b: i128) -> i128 {
    while b != 0 {
        let t = a % b;
        a = b;
        b = t;
    }
    a.abs()
}

pub const POISON: Rat = Rat { num: 0, den: 0 };

impl Rat {
    pub fn new(num: i128, den: i128) -> Rat {
        if den == 0 {
            return POISON;
        }
        let g = gcd(num, den).max(1);
        let (mut n, mut d) = (num / g, den / g);
        if d < 0 {
            n = -n;
            d = -d;
        }
        if n.abs() > (1i128 << 100) || d > (1i128 << 100) {
            return POISON;
        }
        Rat { num: n, den: d }
    }
    pub fn int(n: i128) -> Rat {
        Rat { num: n, den: 1 }
    }
    pub fn is_poison(&self) -> bool {
        self.den == 0
    }
    pub fn to_f64(&self) -> f64 {
        if self.is_poison() {
            f64::NAN
        } else {
            self.num as f64 / self.den as f64
        }
    }
    pub fn add(self, o: Rat) -> Rat {
        if self.is_poison() || o.is_poison() {
            return POISON;
        }
        match (self.num.checked_mul(o.den), o.num.checked_mul(self.den), self.den.checked_mul(o.den)) {
            (Some(a), Some(b), Some(d)) => a.checked_add(b).map(|n| Rat::new(n, d)).unwrap_or(POISON),
            _ => POISON,
        }
    }
    pub fn neg(self) -> Rat {
        if self.is_poison() {
            POISON
        } else {
            Rat { num: -self.num, den: self.den }
        }
    }
    pub fn sub(self, o: Rat) -> Rat {
        self.add(o.neg())
    }
    pub fn mul(self, o: Rat) -> Rat {
        if self.is_poison() || o.is_poison() {
            return POISON;
        }
        match (self.num.checked_mul(o.num), self.den.checked_mul(o.den)) {
            (Some(n), Some(d)) => Rat::new(n, d),
            _ => POISON,
        }
    }
    pub fn div(self, o: Rat) -> Rat {
        if self.is_poison() || o.is_poison() || o.num == 0 {
            return POISON;
        }
        self.mul(Rat::new(o.den, o.num))
    }
    /// integer exponents only
    pub fn pow(self, e: Rat) -> Rat {
        if self.is_poison() || e.is_poison() || e.den != 1 || e.num.abs() > 24 {
            return POISON;
        }
        // a power with base zero and a non-positive exponent has no value here
        if e.num <= 0 && self.num == 0 {
            return POISON;
        }
        let mut r = Rat::int(1);
        for _ in 0..e.num.abs() {
            r = r.mul(self);
        }
        if e.num < 0 {
            Rat::int(1).div(r)
        } else {
            r
        }
    }
}

impl Default for Rat {
    fn default() -> Rat {
        Rat::int(0)
    }
}

impl fmt::Debug for Rat {
    fn fmt(&self, f: &mut fmt::Formatter<'_>) -> fmt::Result {
        if self.is_poison() {
            write!(f, "POISON")
        } else if self.den == 1 {
            write!(f, "{}", self.num)
        } else {
            write!(f, "{}/{}", self.num, self.den)
        }
    }
}

impl FromStr for Rat {
    type Err = String;
    fn from_str(s: &str) -> Result<Rat, String> {
        let (ip, fp) = match s.split_once('.') {
            Some((a, b)) => (a, b),
            None => (s, ""),
        };
        if ip.len() + fp.len() == 0 || ip.len() + fp.len() > 18 || !ip.bytes().chain(fp.bytes()).all(|c| c.is_ascii_digit()) {
            return Err(format!("bad rational literal {s}"));
        }
        let n: i128 = format!("{ip}{fp}").parse().map_err(|_| "parse")?;
        Ok(Rat::new(n, 10i128.pow(fp.len() as u32)))
    }
}

impl From<u8> for Rat {
    fn from(x: u8) -> Rat {
        Rat::int(x as i128)
    }
}

impl From<f32> for Rat {
    fn from(x: f32) -> Rat {
        rat_from_f64(x as f64)
    }
}

pub fn rat_from_f64(x: f64) -> Rat {
    if !x.is_finite() {
        return POISON;
    }
    // exact for dyadic rationals of moderate size
    let scaled = x * (1u64 << 30) as f64;
    if scaled.fract() != 0.0 || scaled.abs() > 1e30 {
        return POISON;
    }
    Rat::new(scaled as i128, 1i128 << 30)
}

#[derive(Clone, Debug, PartialEq, Eq, PartialOrd, Ord)]
pub struct RatOps;
impl MakeOperators<Rat> for RatOps {
    fn make<'a>() -> Vec<Operator<'a, Rat>> {
        vec![
            Operator::make_bin("^", BinOp { apply: |a: Rat, b: Rat| a.pow(b), prio: 4, is_commutative: false }),
            Operator::make_bin("*", BinOp { apply: |a: Rat, b: Rat| a.mul(b), prio: 2, is_commutative: true }),
            Operator::make_bin("/", BinOp { apply: |a: Rat, b: Rat| a.div(b), prio: 3, is_commutative: false }),
            Operator::make_bin_unary("+", BinOp { apply: |a: Rat, b: Rat| a.add(b), prio: 0, is_commutative: true }, |a| a),
            Operator::make_bin_unary("-", BinOp { apply: |a: Rat, b: Rat| a.sub(b), prio: 1, is_commutative: false }, |a: Rat| a.neg()),
            // needed by the power rule; never rational
            Operator::make_unary("ln", |_| POISON),
            Operator::make_unary("log", |_| POISON),
        ]
    }
}

pub type FR = exmex::FlatEx<Rat, RatOps, exmex::NumberMatcher>;
pub type DR<'a> = exmex::DeepEx<'a, Rat, RatOps, exmex::NumberMatcher>;

// ---------------------------------------------------------------------------------------------
// generic reals and dual numbers

pub trait Real: Clone + fmt::Debug {
    fn c(x: f64) -> Self;
    fn add(&self, o: &Self) -> Self;
    fn sub(&self, o: &Self) -> Self;
    fn mul(&self, o: &Self) -> Self;
    fn div(&self, o: &Self) -> Self;
    fn neg(&self) -> Self;
    fn powf(&self, e: &Self) -> Self;
    /// elementary function by its documented name
    fn un(&self, name: &str) -> Self;
    /// primal value (for guards and comparisons)
    fn value(&self) -> f64;
    /// identically zero including all derivative parts
    fn is_zero(&self) -> bool;
    /// largest magnitude among the value and all derivative parts
    fn mag(&self) -> f64;
}

impl Real for f64 {
    fn c(x: f64) -> f64 {
        x
    }
    fn add(&self, o: &f64) -> f64 {
        self + o
    }
    fn sub(&self, o: &f64) -> f64 {
        self - o
    }
    fn mul(&self, o: &f64) -> f64 {
        self * o
    }
    fn div(&self, o: &f64) -> f64 {
        self / o
    }
    fn neg(&self) -> f64 {
        -self
    }
    fn powf(&self, e: &f64) -> f64 {
        f64::powf(*self, *e)
    }
    fn un(&self, name: &str) -> f64 {
        let x = *self;
        match name {
            "+" => x,
            "-" => -x,
            "abs" => x.abs(),
            "signum" => x.signum(),
            "sin" => x.sin(),
            "cos" => x.cos(),
            "tan" => x.tan(),
            "asin" => x.asin(),
            "acos" => x.acos(),
            "atan" => x.atan(),
            "sinh" => x.sinh(),
            "cosh" => x.cosh(),
            "tanh" => x.tanh(),
            "asinh" => x.asinh(),
            "acosh" => x.acosh(),
            "atanh" => x.atanh(),
            "floor" => x.floor(),
            "round" => x.round(),
            "ceil" => x.ceil(),
            "trunc" => x.trunc(),
            "fract" => x.fract(),
            "exp" => x.exp(),
            "sqrt" => x.sqrt(),
            "cbrt" => x.cbrt(),
            "ln" | "log" => x.ln(),
            "log2" => x.log2(),
            "log10" => x.log10(),
            _ => panic!("harness bug: unknown function {name}"),
        }
    }
    fn value(&self) -> f64 {
        *self
    }
    fn is_zero(&self) -> bool {
        *self == 0.0
    }
    fn mag(&self) -> f64 {
        self.abs()
    }
}

impl Real for Rat {
    fn c(x: f64) -> Rat {
        rat_from_f64(x)
    }
    fn add(&self, o: &Rat) -> Rat {
        Rat::add(*self, *o)
    }
    fn sub(&self, o: &Rat) -> Rat {
        Rat::sub(*self, *o)
    }
    fn mul(&self, o: &Rat) -> Rat {
        Rat::mul(*self, *o)
    }
    fn div(&self, o: &Rat) -> Rat {
        Rat::div(*self, *o)
    }
    fn neg(&self) -> Rat {
        Rat::neg(*self)
    }
    fn powf(&self, e: &Rat) -> Rat {
        self.pow(*e)
    }
    fn un(&self, name: &str) -> Rat {
        match name {
            "+" => *self,
            "-" => Rat::neg(*self),
            _ => POISON,
        }
    }
    fn value(&self) -> f64 {
        self.to_f64()
    }
    fn is_zero(&self) -> bool {
        self.num == 0 && self.den != 0
    }
    fn mag(&self) -> f64 {
        self.to_f64().abs()
    }
}

/// forward-mode dual number over any `Real` (nest it for higher orders)
#[derive(Clone, Debug)]
pub struct Dual<T: Real> {
    pub v: T,
    pub d: T,
}

impl<T: Real> Dual<T> {
    pub fn var(v: T, active: bool) -> Dual<T> {
        Dual { v, d: T::c(if active { 1.0 } else { 0.0 }) }
    }
    fn chain(&self, v: T, dv: T) -> Dual<T> {
        Dual { v, d: dv.mul(&self.d) }
    }
}

impl<T: Real> Real for Dual<T> {
    fn c(x: f64) -> Self {
        Dual { v: T::c(x), d: T::c(0.0) }
    }
    fn add(&self, o: &Self) -> Self {
        Dual { v: self.v.add(&o.v), d: self.d.add(&o.d) }
    }
    fn sub(&self, o: &Self) -> Self {
        Dual { v: self.v.sub(&o.v), d: self.d.sub(&o.d) }
    }
    fn mul(&self, o: &Self) -> Self {
        Dual { v: self.v.mul(&o.v), d: self.d.mul(&o.v).add(&self.v.mul(&o.d)) }
    }
    fn div(&self, o: &Self) -> Self {
        let v = self.v.div(&o.v);
        // (f/g)' = (f' - (f/g) g') / g
        Dual { d: self.d.sub(&v.mul(&o.d)).div(&o.v), v }
    }
    fn neg(&self) -> Self {
        Dual { v: self.v.neg(), d: self.d.neg() }
    }
    fn powf(&self, e: &Self) -> Self {
        let v = self.v.powf(&e.v);
        // d/dx f^g = g f^(g-1) f' + f^g ln(f) g'   (second term only if the exponent varies)
        let mut d = e.v.mul(&self.v.powf(&e.v.sub(&T::c(1.0)))).mul(&self.d);
        if !e.d.is_zero() {
            d = d.add(&v.mul(&self.v.un("ln")).mul(&e.d));
        }
        if self.d.is_zero() && e.d.is_zero() {
            d = T::c(0.0);
        }
        Dual { v, d }
    }
    fn un(&self, name: &str) -> Self {
        let x = &self.v;
        let one = T::c(1.0);
        let v = x.un(name);
        let dv = match name {
            "+" => one,
            "-" => one.neg(),
            "abs" => x.un("signum"),
            "signum" | "floor" | "round" | "ceil" | "trunc" => T::c(0.0),
            "fract" => one,
            "sin" => x.un("cos"),
            "cos" => x.un("sin").neg(),
            "tan" => one.div(&x.un("cos").mul(&x.un("cos"))),
            "asin" => one.div(&one.sub(&x.mul(x)).un("sqrt")),
            "acos" => one.div(&one.sub(&x.mul(x)).un("sqrt")).neg(),
            "atan" => one.div(&one.add(&x.mul(x))),
            "sinh" => x.un("cosh"),
            "cosh" => x.un("sinh"),
            "tanh" => one.sub(&v.mul(&v)),
            "asinh" => one.div(&x.mul(x).add(&one).un("sqrt")),
            "acosh" => one.div(&x.mul(x).sub(&one).un("sqrt")),
            "atanh" => one.div(&one.sub(&x.mul(x))),
            "exp" => v.clone(),
            "sqrt" => one.div(&T::c(2.0).mul(&v)),
            "cbrt" => one.div(&T::c(3.0).mul(&v).mul(&v)),
            "ln" | "log" => one.div(x),
            "log2" => one.div(&x.mul(&T::c(std::f64::consts::LN_2))),
            "log10" => one.div(&x.mul(&T::c(std::f64::consts::LN_10))),
            _ => panic!("harness bug: unknown function {name}"),
        };
        if self.d.is_zero() {
            return Dual { v, d: T::c(0.0) };
        }
        self.chain(v, dv)
    }
    fn value(&self) -> f64 {
        self.v.value()
    }
    fn is_zero(&self) -> bool {
        self.v.is_zero() && self.d.is_zero()
    }
    fn mag(&self) -> f64 {
        self.v.mag().max(self.d.mag())
    }
}

// ---------------------------------------------------------------------------------------------
// reference evaluation with guards

/// Records how far an evaluation stayed from singularities; a point is judged only if `ok`.
#[derive(Clone, Debug)]
pub struct Guard {
    pub ok: bool,
    pub maxmag: f64,
}

impl Guard {
    pub fn new() -> Guard {
        Guard { ok: true, maxmag: 0.0 }
    }
    fn need(&mut self, cond: bool) {
        if !cond {
            self.ok = false;
        }
    }
}

impl Default for Guard {
    fn default() -> Self {
        Self::new()
    }
}

pub const MARGIN: f64 = 0.05;

fn near_integer_or_half(x: f64) -> bool {
    let f = (x * 2.0).round() / 2.0;
    (x - f).abs() < MARGIN
}

/// Evaluates a tree whose operators are named as in the default float table.
pub fn eval_tree<T: Real>(t: &Tree, table: &Table, vars: &[String], vals: &[T], g: &mut Guard) -> T {
    let r = match t {
        Tree::Lit(s) => T::c(s.parse::<f64>().expect("numeric literal")),
        Tree::Const(o) => T::c(match table[*o].name {
            "PI" | "π" => std::f64::consts::PI,
            "E" | "e" => std::f64::consts::E,
            "TAU" | "τ" => std::f64::consts::TAU,
            n => panic!("harness bug: unknown constant {n}"),
        }),
        Tree::Var(n) => vals[vars.iter().position(|v| v == n).expect("var")].clone(),
        Tree::Un(o, a) => {
            let a = eval_tree(a, table, vars, vals, g);
            let x = a.value();
            let name = table[*o].name;
            match name {
                "sqrt" | "ln" | "log" | "log2" | "log10" => g.need(x > MARGIN),
                "tan" => g.need(x.cos().abs() > MARGIN),
                "asin" | "acos" | "atanh" => g.need(x.abs() < 1.0 - MARGIN),
                "acosh" => g.need(x > 1.0 + MARGIN),
                "abs" | "signum" | "cbrt" => g.need(x.abs() > MARGIN),
                "floor" | "ceil" | "trunc" | "fract" | "round" => g.need(!near_integer_or_half(x)),
                _ => {}
            }
            a.un(name)
        }
        Tree::Bin(o, a, b) => {
            let a = eval_tree(a, table, vars, vals, g);
            let b = eval_tree(b, table, vars, vals, g);
            match table[*o].name {
                "+" => a.add(&b),
                "-" => a.sub(&b),
                "*" => a.mul(&b),
                "/" => {
                    g.need(b.value().abs() > MARGIN);
                    a.div(&b)
                }
                "^" => {
                    // interior of the domain: positive base, unless the exponent is a constant integer
                    let e = b.value();
                    let const_int_exp = matches!(**match t {
                        Tree::Bin(_, _, bb) => bb,
                        _ => unreachable!(),
                    }, Tree::Lit(_)) && e.fract() == 0.0;
                    if const_int_exp {
                        g.need(e > 0.0 || a.value().abs() > MARGIN);
                    } else {
                        g.need(a.value() > MARGIN);
                    }
                    a.powf(&b)
                }
                "min" => {
                    g.need((a.value() - b.value()).abs() > MARGIN);
                    if a.value() < b.value() {
                        a
                    } else {
                        b
                    }
                }
                "max" => {
                    g.need((a.value() - b.value()).abs() > MARGIN);
                    if a.value() > b.value() {
                        a
                    } else {
                        b
                    }
                }
                "atan2" => {
                    // atan2(y, x) = 2 atan(y / (sqrt(x^2+y^2) + x)) away from the negative x axis
                    g.need(b.value() > MARGIN || a.value().abs() > MARGIN);
                    let r = a.mul(&a).add(&b.mul(&b)).un("sqrt");
                    let denom = r.add(&b);
                    g.need(denom.value().abs() > MARGIN);
                    T::c(2.0).mul(&a.div(&denom).un("atan"))
                }
                n => panic!("harness bug: unknown binary operator {n}"),
            }
        }
    };
    let m = r.mag();
    g.need(m.is_finite());
    if m.is_finite() {
        g.maxmag = g.maxmag.max(m);
    }
    r
}

/// all derivative components of a (nested) dual must be finite and moderate
pub fn finite_all<T: Real>(x: &Dual<T>) -> bool {
    x.v.value().is_finite() && x.d.value().is_finite()
}
