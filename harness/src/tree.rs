//! Reference trees, tree-first generation, the renderer (= executable definition of the
//! documented surface syntax), the reference semantics and the AC normal form.
use crate::rng::Rng;
use crate::sym::{intern, BinSpec, OpSpec, Sym, Table};

#[derive(Clone, Debug, PartialEq, Eq, Hash)]
pub enum Tree {
    Lit(String),
    /// index of a constant operator in the table
    Const(usize),
    Var(String),
    /// index of the operator in the table
    Un(usize, Box<Tree>),
    Bin(usize, Box<Tree>, Box<Tree>),
}

impl Tree {
    pub fn var(s: &str) -> Tree {
        Tree::Var(s.to_string())
    }
    pub fn lit(s: &str) -> Tree {
        Tree::Lit(s.to_string())
    }
    pub fn un(o: usize, a: Tree) -> Tree {
        Tree::Un(o, Box::new(a))
    }
    pub fn bin(o: usize, a: Tree, b: Tree) -> Tree {
        Tree::Bin(o, Box::new(a), Box::new(b))
    }
    pub fn n_leaves(&self) -> usize {
        match self {
            Tree::Un(_, a) => a.n_leaves(),
            Tree::Bin(_, a, b) => a.n_leaves() + b.n_leaves(),
            _ => 1,
        }
    }
    pub fn size(&self) -> usize {
        match self {
            Tree::Un(_, a) => 1 + a.size(),
            Tree::Bin(_, a, b) => 1 + a.size() + b.size(),
            _ => 1,
        }
    }
    pub fn depth(&self) -> usize {
        match self {
            Tree::Un(_, a) => 1 + a.depth(),
            Tree::Bin(_, a, b) => 1 + a.depth().max(b.depth()),
            _ => 0,
        }
    }
    pub fn has_var(&self) -> bool {
        match self {
            Tree::Var(_) => true,
            Tree::Un(_, a) => a.has_var(),
            Tree::Bin(_, a, b) => a.has_var() || b.has_var(),
            _ => false,
        }
    }
    /// distinct variable names in Rust string order
    pub fn vars(&self) -> Vec<String> {
        fn go(t: &Tree, out: &mut Vec<String>) {
            match t {
                Tree::Var(n) => {
                    if !out.contains(n) {
                        out.push(n.clone())
                    }
                }
                Tree::Un(_, a) => go(a, out),
                Tree::Bin(_, a, b) => {
                    go(a, out);
                    go(b, out)
                }
                _ => {}
            }
        }
        let mut v = vec![];
        go(self, &mut v);
        v.sort();
        v
    }
    /// structural shape hash ignoring leaf identity (for distinct-class counting)
    pub fn shape_key(&self, table: &Table) -> String {
        match self {
            Tree::Lit(_) | Tree::Const(_) => "n".into(),
            Tree::Var(_) => "v".into(),
            Tree::Un(_, a) => format!("u({})", a.shape_key(table)),
            Tree::Bin(o, a, b) => {
                let bs = table[*o].bin.as_ref().unwrap();
                format!("b{}{}({},{})", bs.prio, if bs.comm { "c" } else { "" }, a.shape_key(table), b.shape_key(table))
            }
        }
    }
}

// ---------------------------------------------------------------------------------------------
// reference semantics

/// Value of a reference tree over `Sym`: the tree itself, with variables numbered by their
/// position in the sorted list of distinct names and constants replaced by their values.
pub fn reference(t: &Tree, table: &Table, vars: &[String]) -> Sym {
    match t {
        Tree::Lit(s) => Sym::Lit(s.clone()),
        Tree::Const(o) => table[*o].constant.clone().expect("const"),
        Tree::Var(n) => Sym::Var(vars.iter().position(|v| v == n).expect("var in list")),
        Tree::Un(o, a) => Sym::Un(table[*o].un.expect("unary"), Box::new(reference(a, table, vars))),
        Tree::Bin(o, a, b) => Sym::Bin(
            table[*o].bin.as_ref().expect("binary").slot,
            Box::new(reference(a, table, vars)),
            Box::new(reference(b, table, vars)),
        ),
    }
}

/// which binary slots are flagged commutative in this table
pub fn comm_slots(table: &Table) -> [bool; 64] {
    let mut c = [false; 64];
    for o in table {
        if let Some(BinSpec { slot, comm: true, .. }) = &o.bin {
            c[*slot as usize] = true;
        }
    }
    c
}

/// AC normal form: maximal chains of one *flagged* operator are flattened and their operands
/// sorted. Two terms are "equal modulo permitted regrouping" iff their normal forms are equal.
pub fn ac_norm(s: &Sym, comm: &[bool; 64]) -> Sym {
    match s {
        Sym::Un(k, a) => Sym::Un(*k, Box::new(ac_norm(a, comm))),
        Sym::Bin(k, _, _) if comm[*k as usize] => {
            fn collect(s: &Sym, k: u8, comm: &[bool; 64], out: &mut Vec<Sym>) {
                match s {
                    Sym::Bin(k2, a, b) if *k2 == k => {
                        collect(a, k, comm, out);
                        collect(b, k, comm, out);
                    }
                    _ => out.push(ac_norm(s, comm)),
                }
            }
            let mut v = vec![];
            collect(s, *k, comm, &mut v);
            v.sort();
            let mut it = v.into_iter();
            let mut acc = it.next().unwrap();
            for x in it {
                acc = Sym::Bin(*k, Box::new(acc), Box::new(x));
            }
            acc
        }
        Sym::Bin(k, a, b) => Sym::Bin(*k, Box::new(ac_norm(a, comm)), Box::new(ac_norm(b, comm))),
        _ => s.clone(),
    }
}

// ---------------------------------------------------------------------------------------------
// operator tables

pub const SYM_BIN_NAMES: &[&str] = &["+", "-", "*", "/", "^", "%", "&", "|", "<", "<=", "<<", "==", "!=", "&&", "||"];
pub const ALPHA_BIN_NAMES: &[&str] = &["mx", "mn", "atan2", "dot", "andalso", "⊕r", "Δd", "lg"];
pub const UN_NAMES: &[&str] = &["sin", "cos", "ln", "log", "log2", "sqrt", "!", "f_1", "λ", "lg2", "lg10"];
pub const CONST_NAMES: &[&str] = &["PI", "E", "k0", "τ"];

#[derive(Clone, Debug)]
pub struct TableCfg {
    pub max_bin: usize,
    pub max_un: usize,
    pub max_const: usize,
    /// priorities are drawn from 0..prio_range (small range => many collisions)
    pub prio_range: usize,
    /// probability (of 4) that a binary operator is flagged commutative
    pub comm_num: usize,
    pub alpha_bin: bool,
}

impl Default for TableCfg {
    fn default() -> Self {
        TableCfg { max_bin: 10, max_un: 5, max_const: 2, prio_range: 100, comm_num: 2, alpha_bin: true }
    }
}

/// Random operator table. Slots equal the position of the operator in the table (a dual
/// operator uses the same number for its binary and its unary slot; `Sym::Bin` / `Sym::Un`
/// keep them apart).
pub fn gen_table(rng: &mut Rng, cfg: &TableCfg) -> Table {
    let mut t: Table = vec![];
    let nb = rng.range(2, cfg.max_bin.max(2));
    let mut names: Vec<&str> = SYM_BIN_NAMES.to_vec();
    if cfg.alpha_bin {
        names.extend_from_slice(ALPHA_BIN_NAMES);
    }
    rng.shuffle(&mut names);
    // half of all tables squeeze the priorities into a tiny range so that collisions abound
    let pr = if rng.chance(1, 2) { rng.range(1, 4) } else { cfg.prio_range.max(1) };
    for name in names.iter().take(nb) {
        let slot = t.len() as u8;
        let prio = rng.below(pr) as i64 + if pr < cfg.prio_range && rng.chance(1, 3) { (cfg.prio_range - pr) as i64 } else { 0 };
        let comm = rng.chance(cfg.comm_num, 4);
        let dual = (*name == "+" || *name == "-") && rng.chance(2, 3) || rng.chance(1, 12);
        t.push(OpSpec {
            name: intern(name),
            bin: Some(BinSpec { slot, prio, comm }),
            un: if dual { Some(slot) } else { None },
            constant: None,
        });
    }
    let nu = rng.range(1, cfg.max_un.max(1));
    let mut un: Vec<&str> = UN_NAMES.to_vec();
    rng.shuffle(&mut un);
    for name in un.iter().take(nu) {
        // `!` must not coexist with a binary name that it prefixes in a confusing way: `!=` is
        // fine (longest match), keep it.
        let slot = t.len() as u8;
        t.push(OpSpec::un(intern(name), slot));
    }
    let nc = rng.below(cfg.max_const + 1);
    for (i, name) in CONST_NAMES.iter().take(nc).enumerate() {
        t.push(OpSpec::constant(intern(name), Sym::Lit(format!("{}.5", 90 + i))));
    }
    t
}

/// Moves the priorities of a table below zero and / or spreads them widely (priorities are
/// signed 64-bit numbers; nothing restricts them to 0..=99).  Returns (negative, wide).
pub fn widen_priorities(table: &mut Table, rng: &mut Rng) -> (bool, bool) {
    let shift = if rng.chance(2, 3) { rng.range(1, 99) as i64 } else { 0 };
    let scale = if shift == 0 || rng.chance(1, 2) { [2, 13, 100, 1000][rng.below(4)] } else { 1 };
    for o in table.iter_mut() {
        if let Some(b) = o.bin.as_mut() {
            b.prio = (b.prio - shift) * scale;
        }
    }
    (shift > 0, scale > 1)
}

// ---------------------------------------------------------------------------------------------
// tree generation

#[derive(Clone, Debug)]
pub struct GenCfg {
    /// probability (of 10) that a leaf is a literal
    pub lit_num: usize,
    /// probability (of 10) that a non-variable leaf is a constant (if the table has any)
    pub const_num: usize,
    /// probability (of 10) that a node gets wrapped into a unary operator
    pub un_num: usize,
    /// probability (of 10) of a degenerate split (long left/right chains)
    pub chain_num: usize,
    pub vars: Vec<String>,
}

impl Default for GenCfg {
    fn default() -> Self {
        GenCfg {
            lit_num: 5,
            const_num: 1,
            un_num: 2,
            chain_num: 4,
            vars: ["x", "y", "z", "w", "a1", "b_2", "α", "βeta", "Xlong_name9"].iter().map(|s| s.to_string()).collect(),
        }
    }
}

pub const LITS: &[&str] = &["1", "2", "3", "4", "5", "7", "9", "10", "0.5", "2.25", "12", "0"];

pub fn gen_tree(rng: &mut Rng, table: &Table, n_leaves: usize, cfg: &GenCfg) -> Tree {
    let bins: Vec<usize> = (0..table.len()).filter(|i| table[*i].bin.is_some()).collect();
    let uns: Vec<usize> = (0..table.len()).filter(|i| table[*i].un.is_some()).collect();
    let consts: Vec<usize> = (0..table.len()).filter(|i| table[*i].constant.is_some()).collect();
    gen_rec(rng, n_leaves, cfg, &bins, &uns, &consts)
}

fn gen_rec(rng: &mut Rng, n: usize, cfg: &GenCfg, bins: &[usize], uns: &[usize], consts: &[usize]) -> Tree {
    let mut t = if n <= 1 || bins.is_empty() {
        if rng.chance(cfg.lit_num, 10) {
            if !consts.is_empty() && rng.chance(cfg.const_num, 10) {
                Tree::Const(*rng.pick(consts))
            } else {
                Tree::lit(*rng.pick(LITS))
            }
        } else {
            Tree::Var(rng.pick(&cfg.vars).clone())
        }
    } else {
        let k = if rng.chance(cfg.chain_num, 10) {
            if rng.chance(2, 3) {
                n - 1
            } else {
                1
            }
        } else {
            rng.range(1, n - 1)
        };
        let o = *rng.pick(bins);
        Tree::bin(o, gen_rec(rng, k, cfg, bins, uns, consts), gen_rec(rng, n - k, cfg, bins, uns, consts))
    };
    if !uns.is_empty() {
        let mut p = cfg.un_num;
        while rng.chance(p, 10) {
            t = Tree::un(*rng.pick(uns), t);
            p = p.min(5);
        }
    }
    t
}

/// reference tree of a parenthesis-free chain: the root is the rightmost operator of lowest
/// priority (equal priorities group left to right)
pub fn tree_from_chain(operands: &[Tree], ops: &[usize], table: &Table) -> Tree {
    if ops.is_empty() {
        return operands[0].clone();
    }
    let mut root = 0;
    for (i, o) in ops.iter().enumerate() {
        let p = table[*o].bin.as_ref().unwrap().prio;
        let pr = table[ops[root]].bin.as_ref().unwrap().prio;
        if p <= pr {
            root = i;
        }
    }
    Tree::bin(
        ops[root],
        tree_from_chain(&operands[..=root], &ops[..root], table),
        tree_from_chain(&operands[root + 1..], &ops[root + 1..], table),
    )
}

/// A long chain on ONE nesting level: `n` operands joined by random binary operators without
/// parentheses; operands are atoms, unary applications or (rarely) small parenthesised groups.
pub fn gen_chain_tree(rng: &mut Rng, table: &Table, n: usize, cfg: &GenCfg) -> Tree {
    let bins: Vec<usize> = (0..table.len()).filter(|i| table[*i].bin.is_some()).collect();
    // few distinct operators per chain, so that equal priorities and repeated operators abound
    let k = rng.range(1, bins.len().min(4));
    let chosen: Vec<usize> = (0..k).map(|_| *rng.pick(&bins)).collect();
    let operands: Vec<Tree> = (0..n)
        .map(|_| {
            let leaves = if rng.chance(1, 12) { rng.range(2, 3) } else { 1 };
            gen_tree(rng, table, leaves, cfg)
        })
        .collect();
    let ops: Vec<usize> = (0..n - 1).map(|_| *rng.pick(&chosen)).collect();
    tree_from_chain(&operands, &ops, table)
}

// ---------------------------------------------------------------------------------------------
// rendering

#[derive(Clone, Copy, Debug, PartialEq, Eq)]
pub enum TK {
    Num,
    Var,
    BVar,
    Const,
    BinOp,
    UnOp,
    Open,
    Close,
    Comma,
}

#[derive(Clone, Debug, PartialEq, Eq)]
pub struct Tok {
    pub kind: TK,
    pub text: String,
}

impl Tok {
    pub fn new(kind: TK, text: &str) -> Tok {
        Tok { kind, text: text.to_string() }
    }
    /// a complete operand on its own
    pub fn is_primary(&self) -> bool {
        matches!(self.kind, TK::Num | TK::Var | TK::BVar | TK::Const)
    }
}

#[derive(Clone, Debug)]
pub struct RenderCfg {
    /// probability (of 12) of redundant parentheses around a sub-expression
    pub extra_paren: usize,
    /// probability (of 6) of an optional space between two tokens
    pub space: usize,
    /// probability (of 6) that a bare-able variable is written in braces
    pub brace: usize,
    /// probability (of 6) that a binary node is written in call form `op(a, b)`
    pub call: usize,
    /// probability (of 4) that a unary operator over an atom / unary is juxtaposed (`sin x`)
    pub juxta: usize,
    /// call form only for alphabetic operators
    pub call_alpha_only: bool,
    /// if set, the call/infix decision of the binary nodes is scripted (in rendering order)
    pub call_script: Option<std::cell::RefCell<(Vec<bool>, usize)>>,
}

impl RenderCfg {
    pub fn plain() -> RenderCfg {
        RenderCfg { extra_paren: 0, space: 0, brace: 0, call: 0, juxta: 0, call_alpha_only: true, call_script: None }
    }
    pub fn random(rng: &mut Rng) -> RenderCfg {
        if rng.chance(1, 4) {
            return RenderCfg::plain();
        }
        RenderCfg {
            extra_paren: rng.below(4),
            space: rng.below(4),
            brace: rng.below(4),
            call: 0,
            juxta: rng.below(4),
            call_alpha_only: true,
            call_script: None,
        }
    }
}

pub fn is_ident_char(c: char) -> bool {
    c.is_ascii_alphanumeric() || c == '_' || ('α'..='ω').contains(&c) || ('Α'..='Ω').contains(&c)
}

pub fn is_bare_var_name(s: &str) -> bool {
    let mut cs = s.chars();
    match cs.next() {
        Some(c) if is_ident_char(c) && !c.is_ascii_digit() => cs.all(is_ident_char),
        _ => false,
    }
}

fn prio(table: &Table, o: usize) -> i64 {
    table[o].bin.as_ref().unwrap().prio
}

pub fn render_tokens(t: &Tree, table: &Table, rng: &mut Rng, cfg: &RenderCfg) -> Vec<Tok> {
    let mut out = vec![];
    render_rec(t, table, rng, cfg, &mut out);
    out
}

fn paren_wrap(inner: Vec<Tok>, out: &mut Vec<Tok>) {
    out.push(Tok::new(TK::Open, "("));
    out.extend(inner);
    out.push(Tok::new(TK::Close, ")"));
}

fn render_rec(t: &Tree, table: &Table, rng: &mut Rng, cfg: &RenderCfg, out: &mut Vec<Tok>) {
    let mut inner = vec![];
    render_node(t, table, rng, cfg, &mut inner);
    if rng.chance(cfg.extra_paren, 12) {
        paren_wrap(inner, out);
    } else {
        out.extend(inner);
    }
}

fn will_call(o: usize, table: &Table, rng: &mut Rng, cfg: &RenderCfg) -> bool {
    if let Some(script) = &cfg.call_script {
        let mut s = script.borrow_mut();
        let i = s.1;
        s.1 += 1;
        return s.0.get(i).copied().unwrap_or(false);
    }
    cfg.call > 0 && (!cfg.call_alpha_only || table[o].is_alpha()) && rng.chance(cfg.call, 6)
}

fn render_node(t: &Tree, table: &Table, rng: &mut Rng, cfg: &RenderCfg, out: &mut Vec<Tok>) {
    match t {
        Tree::Lit(s) => out.push(Tok::new(TK::Num, s)),
        Tree::Const(o) => out.push(Tok::new(TK::Const, table[*o].name)),
        Tree::Var(n) => {
            if !is_bare_var_name(n) || rng.chance(cfg.brace, 6) {
                out.push(Tok { kind: TK::BVar, text: format!("{{{n}}}") })
            } else {
                out.push(Tok::new(TK::Var, n))
            }
        }
        Tree::Un(o, a) => {
            out.push(Tok::new(TK::UnOp, table[*o].name));
            let mut inner = vec![];
            render_rec(a, table, rng, cfg, &mut inner);
            // the operand is self-delimiting if it is a primary, a unary application, a call,
            // or already wrapped in parentheses
            let self_delimiting = match inner.first().map(|t| t.kind) {
                Some(TK::Open) => matching_close(&inner, 0) == Some(inner.len() - 1),
                Some(TK::UnOp) => !matches!(**a, Tree::Bin(..)),
                Some(TK::BinOp) => is_single_call(&inner),
                Some(_) => inner.len() == 1,
                None => false,
            };
            if self_delimiting && (inner[0].kind == TK::Open || rng.chance(cfg.juxta, 4)) {
                out.extend(inner);
            } else {
                paren_wrap(inner, out);
            }
        }
        Tree::Bin(o, a, b) => {
            if will_call(*o, table, rng, cfg) {
                out.push(Tok::new(TK::BinOp, table[*o].name));
                out.push(Tok::new(TK::Open, "("));
                render_rec(a, table, rng, cfg, out);
                out.push(Tok::new(TK::Comma, ","));
                render_rec(b, table, rng, cfg, out);
                out.push(Tok::new(TK::Close, ")"));
                return;
            }
            let p = prio(table, *o);
            for (child, left) in [(a, true), (b, false)] {
                let mut inner = vec![];
                render_rec(child, table, rng, cfg, &mut inner);
                // an infix child needs parentheses if it would otherwise not be applied first
                let need = match &**child {
                    Tree::Bin(co, _, _) => {
                        let infix = !(inner.first().map(|t| t.kind) == Some(TK::BinOp) && is_single_call(&inner))
                            && !(inner.first().map(|t| t.kind) == Some(TK::Open)
                                && matching_close(&inner, 0) == Some(inner.len() - 1));
                        let cp = prio(table, *co);
                        infix && (cp < p || (cp == p && !left))
                    }
                    _ => false,
                };
                if need {
                    paren_wrap(inner, out);
                } else {
                    out.extend(inner);
                }
                if left {
                    out.push(Tok::new(TK::BinOp, table[*o].name));
                }
            }
        }
    }
}

pub fn matching_close(toks: &[Tok], open_idx: usize) -> Option<usize> {
    let mut d = 0i32;
    for (i, t) in toks.iter().enumerate().skip(open_idx) {
        match t.kind {
            TK::Open => d += 1,
            TK::Close => {
                d -= 1;
                if d == 0 {
                    return Some(i);
                }
            }
            _ => {}
        }
    }
    None
}

/// tokens are exactly one call `op( ... )`
fn is_single_call(toks: &[Tok]) -> bool {
    toks.len() >= 2 && toks[0].kind == TK::BinOp && toks[1].kind == TK::Open && matching_close(toks, 1) == Some(toks.len() - 1)
}

/// Whether a separating space is *required* between two adjacent tokens.
pub fn space_required(a: &Tok, b: &Tok, table: &Table) -> bool {
    let la = a.text.chars().last().unwrap();
    let fb = b.text.chars().next().unwrap();
    let ident_or_dot = |c: char| is_ident_char(c) || c == '.';
    if ident_or_dot(la) && ident_or_dot(fb) {
        return true;
    }
    // two operator tokens whose concatenation starts with a longer operator name
    if matches!(a.kind, TK::BinOp | TK::UnOp) {
        let cat = format!("{}{}", a.text, b.text);
        if table.iter().any(|o| o.name.len() > a.text.len() && cat.starts_with(o.name)) {
            return true;
        }
    }
    false
}

pub fn join_tokens(toks: &[Tok], table: &Table, rng: &mut Rng, cfg: &RenderCfg) -> String {
    let mut s = String::new();
    if rng.chance(cfg.space, 12) {
        s.push(' ');
    }
    for (i, t) in toks.iter().enumerate() {
        if i > 0 && (space_required(&toks[i - 1], t, table) || rng.chance(cfg.space, 6)) {
            s.push(' ');
            if rng.chance(cfg.space, 12) {
                s.push(' ');
            }
        }
        s.push_str(&t.text);
    }
    if rng.chance(cfg.space, 12) {
        s.push(' ');
    }
    s
}

pub fn render(t: &Tree, table: &Table, rng: &mut Rng, cfg: &RenderCfg) -> String {
    let toks = render_tokens(t, table, rng, cfg);
    join_tokens(&toks, table, rng, cfg)
}

/// canonical rendering: no random choices at all
pub fn render_plain(t: &Tree, table: &Table) -> String {
    let mut rng = Rng::new(0, 0);
    render(t, table, &mut rng, &RenderCfg::plain())
}

// ---------------------------------------------------------------------------------------------
// shrinking

/// All one-step simplifications of a tree.
pub fn shrink_candidates(t: &Tree) -> Vec<Tree> {
    let mut out = vec![];
    match t {
        Tree::Un(o, a) => {
            out.push((**a).clone());
            for c in shrink_candidates(a) {
                out.push(Tree::un(*o, c));
            }
        }
        Tree::Bin(o, a, b) => {
            out.push((**a).clone());
            out.push((**b).clone());
            for c in shrink_candidates(a) {
                out.push(Tree::bin(*o, c, (**b).clone()));
            }
            for c in shrink_candidates(b) {
                out.push(Tree::bin(*o, (**a).clone(), c));
            }
        }
        Tree::Const(_) => out.push(Tree::lit("1")),
        Tree::Lit(s) if s != "1" => out.push(Tree::lit("1")),
        Tree::Var(n) if n != "x" && n != "y" => {
            out.push(Tree::var("x"));
            out.push(Tree::var("y"));
        }
        _ => {}
    }
    out
}

/// Greedy shrinking: keep taking the first candidate on which `still_fails` holds.
pub fn shrink_tree(t: &Tree, still_fails: &mut dyn FnMut(&Tree) -> bool, budget: usize) -> Tree {
    let mut cur = t.clone();
    let mut left = budget;
    'outer: loop {
        for c in shrink_candidates(&cur) {
            if left == 0 {
                break 'outer;
            }
            left -= 1;
            if c.size() < cur.size() || c != cur {
                if still_fails(&c) {
                    cur = c;
                    continue 'outer;
                }
            }
        }
        break;
    }
    cur
}

// ---------------------------------------------------------------------------------------------
// call notation

/// Rewrites every call `op ( A , B )` in a token list into `( ( A ) op ( B ) )` - literally what
/// the property C08 says the call form denotes.
pub fn expand_calls(toks: &[Tok]) -> Vec<Tok> {
    let mut out = vec![];
    let mut i = 0;
    while i < toks.len() {
        if toks[i].kind == TK::BinOp && i + 1 < toks.len() && toks[i + 1].kind == TK::Open {
            if let Some(close) = matching_close(toks, i + 1) {
                // top-level comma inside?
                let mut d = 0;
                let mut comma = None;
                for (j, t) in toks.iter().enumerate().take(close).skip(i + 2) {
                    match t.kind {
                        TK::Open => d += 1,
                        TK::Close => d -= 1,
                        TK::Comma if d == 0 => {
                            comma = Some(j);
                            break;
                        }
                        _ => {}
                    }
                }
                if let Some(c) = comma {
                    out.push(Tok::new(TK::Open, "("));
                    out.push(Tok::new(TK::Open, "("));
                    out.extend(expand_calls(&toks[i + 2..c]));
                    out.push(Tok::new(TK::Close, ")"));
                    out.push(toks[i].clone());
                    out.push(Tok::new(TK::Open, "("));
                    out.extend(expand_calls(&toks[c + 1..close]));
                    out.push(Tok::new(TK::Close, ")"));
                    out.push(Tok::new(TK::Close, ")"));
                    i = close + 1;
                    continue;
                }
            }
        }
        out.push(toks[i].clone());
        i += 1;
    }
    out
}
