//! Second, numeric instantiation: the wrapping i64 ring. Operators flagged commutative are
//! mapped to functions that really are associative and commutative, so a permitted regrouping
//! is invisible and values can be compared with `==`.
use crate::sym::{current_table, Table};
use crate::tree::Tree;
use exmex::{BinOp, MakeOperators, NumberMatcher, Operator};
use std::str::FromStr;

#[derive(Clone, Copy, Debug, Default, PartialEq, Eq, Hash)]
pub struct W64(pub i64);

impl FromStr for W64 {
    type Err = String;
    fn from_str(s: &str) -> Result<Self, String> {
        if s.contains('.') {
            s.parse::<f64>().map(|x| W64((x * 1000.0) as i64)).map_err(|e| e.to_string())
        } else {
            s.parse::<i64>().map(W64).map_err(|e| e.to_string())
        }
    }
}

/// makes W64 a type with neutral elements (0 and 1), as the overloaded operators of deep
/// expressions may require
impl From<u8> for W64 {
    fn from(x: u8) -> W64 {
        W64(x as i64)
    }
}

type B = fn(W64, W64) -> W64;
type U = fn(W64) -> W64;

pub const AC_FNS: &[B] = &[
    |a, b| W64(a.0.wrapping_add(b.0)),
    |a, b| W64(a.0.wrapping_mul(b.0)),
    |a, b| W64(a.0 ^ b.0),
    |a, b| W64(a.0 & b.0),
    |a, b| W64(a.0 | b.0),
    |a, b| W64(a.0.min(b.0)),
    |a, b| W64(a.0.max(b.0)),
];
pub const NON_AC_FNS: &[B] = &[
    |a, b| W64(a.0.wrapping_sub(b.0)),
    |a, b| W64(a.0.wrapping_mul(3).wrapping_add(b.0)),
    |a, b| W64(a.0.wrapping_mul(7) ^ b.0.wrapping_mul(5).wrapping_add(1)),
    |a, b| W64(a.0.rotate_left(5).wrapping_sub(b.0.rotate_left(11))),
    |a, b| W64(a.0.wrapping_mul(a.0).wrapping_add(b.0)),
];
pub const UN_FNS: &[U] = &[
    |a| W64(a.0.wrapping_neg()),
    |a| W64(!a.0),
    |a| W64(a.0.wrapping_mul(2).wrapping_add(1)),
    |a| W64(a.0.rotate_left(17) ^ 0x55),
];

pub fn bin_fn(slot: u8, comm: bool) -> B {
    if comm {
        AC_FNS[slot as usize % AC_FNS.len()]
    } else {
        NON_AC_FNS[slot as usize % NON_AC_FNS.len()]
    }
}
pub fn un_fn(slot: u8) -> U {
    UN_FNS[slot as usize % UN_FNS.len()]
}
pub fn const_val(idx: usize) -> W64 {
    W64(1_000_003 * (idx as i64 + 1))
}

#[derive(Clone, Debug, PartialEq, Eq, PartialOrd, Ord)]
pub struct W64Ops;
impl MakeOperators<W64> for W64Ops {
    fn make<'a>() -> Vec<Operator<'a, W64>> {
        current_table()
            .iter()
            .enumerate()
            .map(|(i, o)| {
                if o.constant.is_some() {
                    Operator::make_constant(o.name, const_val(i))
                } else {
                    match (&o.bin, o.un) {
                        (Some(b), Some(u)) => Operator::make_bin_unary(
                            o.name,
                            BinOp { apply: bin_fn(b.slot, b.comm), prio: b.prio, is_commutative: b.comm },
                            un_fn(u),
                        ),
                        (Some(b), None) => Operator::make_bin(
                            o.name,
                            BinOp { apply: bin_fn(b.slot, b.comm), prio: b.prio, is_commutative: b.comm },
                        ),
                        (None, Some(u)) => Operator::make_unary(o.name, un_fn(u)),
                        _ => panic!("harness bug: empty op spec"),
                    }
                }
            })
            .collect()
    }
}

pub type FW = exmex::FlatEx<W64, W64Ops, NumberMatcher>;
pub type DW<'a> = exmex::DeepEx<'a, W64, W64Ops, NumberMatcher>;

/// reference value of a tree in the ring
pub fn reference_w64(t: &Tree, table: &Table, vars: &[String], vals: &[W64]) -> W64 {
    match t {
        Tree::Lit(s) => s.parse().expect("literal"),
        Tree::Const(o) => const_val(*o),
        Tree::Var(n) => vals[vars.iter().position(|v| v == n).unwrap()],
        Tree::Un(o, a) => un_fn(table[*o].un.unwrap())(reference_w64(a, table, vars, vals)),
        Tree::Bin(o, a, b) => {
            let bs = table[*o].bin.as_ref().unwrap();
            bin_fn(bs.slot, bs.comm)(reference_w64(a, table, vars, vals), reference_w64(b, table, vars, vals))
        }
    }
}
