//! `Pt`: a small plain-data value type (8 bytes, no drop glue) with an observable `Clone` (C15).
//! Types like this are what a "cheap to copy" shortcut would single out; the property holds for
//! every data type.
use crate::sym::{current_table, SymMatcher};
use exmex::{BinOp, MakeOperators, Operator};
use std::cell::{Cell, RefCell};
use std::str::FromStr;

#[derive(Debug, PartialEq)]
pub struct Pt {
    /// variable identity + 1, or 0 for computed values, literals and the placeholder
    pub id: u32,
    /// hash of the term this value stands for
    pub h: u32,
}

const HOLE: u32 = 0xdead_0001;

thread_local! {
    static CLONES: RefCell<Vec<u64>> = const { RefCell::new(Vec::new()) };
    static HOLE_REACHED_OP: Cell<u64> = const { Cell::new(0) };
}

pub fn reset_counters(n_vars: usize) {
    CLONES.with(|c| *c.borrow_mut() = vec![0; n_vars]);
    HOLE_REACHED_OP.with(|c| c.set(0));
}
pub fn clones() -> Vec<u64> {
    CLONES.with(|c| c.borrow().clone())
}
pub fn hole_reached_op() -> u64 {
    HOLE_REACHED_OP.with(|c| c.get())
}

fn mix(a: u32, b: u32) -> u32 {
    let x = (a as u64).wrapping_mul(0x9e37_79b9).wrapping_add((b as u64).rotate_left(17)).wrapping_mul(0x85eb_ca6b);
    ((x >> 13) ^ x) as u32 | 1
}

impl Pt {
    pub fn var(i: usize) -> Pt {
        Pt { id: i as u32 + 1, h: mix(0x5151, i as u32) & !1 }
    }
}

impl Clone for Pt {
    fn clone(&self) -> Pt {
        if self.id > 0 {
            CLONES.with(|c| {
                if let Some(x) = c.borrow_mut().get_mut(self.id as usize - 1) {
                    *x += 1;
                }
            });
        }
        Pt { id: self.id, h: self.h }
    }
}

impl Default for Pt {
    fn default() -> Pt {
        Pt { id: 0, h: HOLE }
    }
}

impl FromStr for Pt {
    type Err = String;
    fn from_str(s: &str) -> Result<Pt, String> {
        let mut h = 0x811c_9dc5u32;
        for b in s.bytes() {
            h = (h ^ b as u32).wrapping_mul(0x0100_0193);
        }
        Ok(Pt { id: 0, h: h & !1 })
    }
}

/// an operator that receives this value panics (a user-defined operator may do that)
pub const BOOM: u32 = 0xb000_0b01;

#[inline]
fn operand(t: &Pt) {
    if t.id == 0 && t.h == HOLE {
        HOLE_REACHED_OP.with(|c| c.set(c.get() + 1));
    }
    if t.h == BOOM {
        panic!("EXPECTED-PANIC a user-defined operator panics on this operand");
    }
}

macro_rules! mkfns {
    ($($i:literal $b:ident $u:ident),*) => {
        $(fn $b(a: Pt, b: Pt) -> Pt { operand(&a); operand(&b); Pt { id: 0, h: mix(mix($i, a.h), b.h) } }
          fn $u(a: Pt) -> Pt { operand(&a); Pt { id: 0, h: mix($i + 1000, a.h) } })*
        pub const PBINS: &[fn(Pt, Pt) -> Pt] = &[$($b),*];
        pub const PUNS: &[fn(Pt) -> Pt] = &[$($u),*];
    };
}
mkfns!(0 tb0 tu0, 1 tb1 tu1, 2 tb2 tu2, 3 tb3 tu3, 4 tb4 tu4, 5 tb5 tu5, 6 tb6 tu6, 7 tb7 tu7, 8 tb8 tu8, 9 tb9 tu9, 10 tb10 tu10, 11 tb11 tu11, 12 tb12 tu12, 13 tb13 tu13, 14 tb14 tu14, 15 tb15 tu15, 16 tb16 tu16, 17 tb17 tu17, 18 tb18 tu18, 19 tb19 tu19, 20 tb20 tu20, 21 tb21 tu21, 22 tb22 tu22, 23 tb23 tu23, 24 tb24 tu24, 25 tb25 tu25, 26 tb26 tu26, 27 tb27 tu27, 28 tb28 tu28, 29 tb29 tu29, 30 tb30 tu30, 31 tb31 tu31, 32 tb32 tu32, 33 tb33 tu33, 34 tb34 tu34, 35 tb35 tu35, 36 tb36 tu36, 37 tb37 tu37, 38 tb38 tu38, 39 tb39 tu39, 40 tb40 tu40, 41 tb41 tu41, 42 tb42 tu42, 43 tb43 tu43, 44 tb44 tu44, 45 tb45 tu45, 46 tb46 tu46, 47 tb47 tu47, 48 tb48 tu48, 49 tb49 tu49, 50 tb50 tu50, 51 tb51 tu51, 52 tb52 tu52, 53 tb53 tu53, 54 tb54 tu54, 55 tb55 tu55, 56 tb56 tu56, 57 tb57 tu57, 58 tb58 tu58, 59 tb59 tu59, 60 tb60 tu60, 61 tb61 tu61, 62 tb62 tu62, 63 tb63 tu63);

#[derive(Clone, Debug, PartialEq, Eq, PartialOrd, Ord)]
pub struct PtOps;
impl MakeOperators<Pt> for PtOps {
    fn make<'a>() -> Vec<Operator<'a, Pt>> {
        current_table()
            .iter()
            .enumerate()
            .map(|(k, o)| {
                if o.constant.is_some() {
                    Operator::make_constant(o.name, Pt { id: 0, h: mix(0xc0c0, k as u32) & !1 })
                } else {
                    match (&o.bin, o.un) {
                        (Some(b), Some(u)) => Operator::make_bin_unary(o.name, BinOp { apply: PBINS[b.slot as usize], prio: b.prio, is_commutative: b.comm }, PUNS[u as usize]),
                        (Some(b), None) => Operator::make_bin(o.name, BinOp { apply: PBINS[b.slot as usize], prio: b.prio, is_commutative: b.comm }),
                        (None, Some(u)) => Operator::make_unary(o.name, PUNS[u as usize]),
                        _ => panic!("harness bug: empty op spec"),
                    }
                }
            })
            .collect()
    }
}

pub type FP = exmex::FlatEx<Pt, PtOps, SymMatcher>;
