//! Shared monitor infrastructure: context, parallel workers, statistics, verdicts, evidence.
use crate::rng::Rng;
use serde_json::{json, Value};
use std::cell::RefCell;
use std::collections::hash_map::DefaultHasher;
use std::collections::{BTreeMap, HashSet};
use std::hash::{Hash, Hasher};
use std::path::PathBuf;
use std::time::Instant;

#[derive(Clone, Copy, Debug, PartialEq, Eq)]
pub enum Tier {
    Quick,
    Thorough,
}

impl Tier {
    pub fn name(&self) -> &'static str {
        match self {
            Tier::Quick => "quick",
            Tier::Thorough => "thorough",
        }
    }
}

#[derive(Clone, Debug)]
pub struct Ctx {
    pub id: &'static str,
    pub tier: Tier,
    pub seed: u64,
    pub threads: usize,
    pub start: Instant,
    pub verif_dir: PathBuf,
}

impl Ctx {
    /// `q` cases in the quick tier, `t` in the thorough tier (overridable by VERIF_SCALE)
    pub fn n(&self, q: usize, t: usize) -> usize {
        let base = if self.tier == Tier::Quick { q } else { t };
        let scale: f64 = std::env::var("VERIF_SCALE").ok().and_then(|s| s.parse().ok()).unwrap_or(1.0);
        ((base as f64 * scale) as usize).max(1)
    }
    pub fn is_quick(&self) -> bool {
        self.tier == Tier::Quick
    }
}

#[derive(Clone, Debug)]
pub struct Violation {
    /// stable signature of the witness; known findings are matched on it
    pub sig: String,
    /// size used to prefer small witnesses
    pub weight: usize,
    pub detail: Value,
}

#[derive(Default, Debug)]
pub struct Stats {
    pub counters: BTreeMap<String, u64>,
    pub classes: HashSet<u64>,
    pub samples: Vec<Value>,
    pub violations: Vec<Violation>,
    pub max_samples: usize,
}

impl Stats {
    pub fn new() -> Stats {
        Stats { max_samples: 4, ..Default::default() }
    }
    pub fn bump(&mut self, k: &str) {
        *self.counters.entry(k.to_string()).or_default() += 1;
    }
    pub fn add(&mut self, k: &str, n: u64) {
        *self.counters.entry(k.to_string()).or_default() += n;
    }
    pub fn max(&mut self, k: &str, n: u64) {
        let e = self.counters.entry(k.to_string()).or_default();
        if n > *e {
            *e = n;
        }
    }
    pub fn get(&self, k: &str) -> u64 {
        self.counters.get(k).copied().unwrap_or(0)
    }
    /// registers a distinct non-trivial class
    pub fn class<K: Hash>(&mut self, key: K) {
        let mut h = DefaultHasher::new();
        key.hash(&mut h);
        self.classes.insert(h.finish());
    }
    pub fn sample(&mut self, v: Value) {
        if self.samples.len() < self.max_samples {
            self.samples.push(v);
        }
    }
    pub fn violation(&mut self, sig: String, weight: usize, detail: Value) {
        self.bump("violations_raw");
        if self.violations.len() < 200 {
            self.violations.push(Violation { sig, weight, detail });
        }
    }
    pub fn merge(&mut self, other: Stats) {
        for (k, v) in other.counters {
            if k.starts_with("max_") {
                self.max(&k, v);
            } else {
                self.add(&k, v);
            }
        }
        self.classes.extend(other.classes);
        for s in other.samples {
            if self.samples.len() < 12 {
                self.samples.push(s);
            }
        }
        self.violations.extend(other.violations);
    }
}

// ---------------------------------------------------------------------------------------------
// panic capture

thread_local! {
    static LAST_PANIC: RefCell<Option<String>> = const { RefCell::new(None) };
}

pub fn install_panic_hook() {
    std::panic::set_hook(Box::new(|info| {
        let loc = info.location().map(|l| format!("{}:{}", l.file(), l.line())).unwrap_or_default();
        let msg = if let Some(s) = info.payload().downcast_ref::<&str>() {
            s.to_string()
        } else if let Some(s) = info.payload().downcast_ref::<String>() {
            s.clone()
        } else {
            "<non-string payload>".to_string()
        };
        // panics raised by the harness itself (not inside the library under test or its
        // dependencies) are bugs of the harness: make them visible
        if loc.starts_with("src/") && !msg.starts_with("EXPECTED-PANIC") {
            eprintln!("harness panic at {loc}: {msg}");
        }
        LAST_PANIC.with(|p| *p.borrow_mut() = Some(format!("{loc}: {msg}")));
    }));
}

/// Runs `f`, turning a panic into `Err(location: message)`.
pub fn catch<T>(f: impl FnOnce() -> T) -> Result<T, String> {
    match std::panic::catch_unwind(std::panic::AssertUnwindSafe(f)) {
        Ok(v) => Ok(v),
        Err(_) => Err(LAST_PANIC.with(|p| p.borrow_mut().take()).unwrap_or_else(|| "panic".into())),
    }
}

/// location part of a captured panic message with line numbers kept (signature of a panic)
pub fn panic_site(msg: &str) -> String {
    msg.split(": ").next().unwrap_or(msg).to_string()
}

// ---------------------------------------------------------------------------------------------
// workers

/// Runs `f(worker_index, rng, stats)` on `ctx.threads` threads with large stacks and merges the
/// statistics. Every worker derives its PRNG stream from (seed, property, worker index).
pub fn run_workers<F>(ctx: &Ctx, stream_tag: u64, f: F) -> Stats
where
    F: Fn(usize, &mut Rng, &mut Stats) + Sync,
{
    let mut total = Stats::new();
    let results: Vec<Stats> = std::thread::scope(|s| {
        let handles: Vec<_> = (0..ctx.threads)
            .map(|w| {
                let f = &f;
                let seed = ctx.seed;
                std::thread::Builder::new()
                    .stack_size(1 << 30)
                    .spawn_scoped(s, move || {
                        let mut rng = Rng::new(seed, stream_tag.wrapping_mul(1000).wrapping_add(w as u64));
                        let mut st = Stats::new();
                        f(w, &mut rng, &mut st);
                        st
                    })
                    .expect("spawn worker")
            })
            .collect();
        handles.into_iter().map(|h| h.join().expect("worker must not panic (harness bug)")).collect()
    });
    for r in results {
        total.merge(r);
    }
    total
}

/// splits `n` items over the workers
pub fn share(n: usize, worker: usize, threads: usize) -> usize {
    n / threads + if worker < n % threads { 1 } else { 0 }
}

// ---------------------------------------------------------------------------------------------
// known findings

#[derive(Clone, Debug)]
pub struct Known {
    pub property: String,
    pub signature: String,
    pub what: String,
}

pub fn load_known(ctx: &Ctx) -> Vec<Known> {
    let p = ctx.verif_dir.join("known_findings.json");
    let Ok(txt) = std::fs::read_to_string(&p) else { return vec![] };
    let Ok(v) = serde_json::from_str::<Value>(&txt) else { return vec![] };
    v["known"]
        .as_array()
        .map(|a| {
            a.iter()
                .map(|k| Known {
                    property: k["property"].as_str().unwrap_or("").to_string(),
                    signature: k["signature"].as_str().unwrap_or("").to_string(),
                    what: k["what"].as_str().unwrap_or("").to_string(),
                })
                .collect()
        })
        .unwrap_or_default()
}

// ---------------------------------------------------------------------------------------------
// verdict + evidence

pub struct Report {
    pub rule: String,
    pub assumptions: Vec<String>,
    /// (counter name, minimum) pairs: if a counter stays below its minimum the monitor did not
    /// reach the interesting region and the run is inconclusive
    pub required: Vec<(String, u64)>,
    pub exhaustive: bool,
    pub extra: Value,
}

impl Report {
    pub fn new(rule: &str) -> Report {
        Report { rule: rule.to_string(), assumptions: vec![], required: vec![], exhaustive: false, extra: json!({}) }
    }
    pub fn assume(mut self, s: &str) -> Self {
        self.assumptions.push(s.to_string());
        self
    }
    pub fn require(mut self, counter: &str, min: u64) -> Self {
        self.required.push((counter.to_string(), min));
        self
    }
}

fn hash_str(s: &str) -> u64 {
    let mut h = DefaultHasher::new();
    s.hash(&mut h);
    h.finish()
}

/// Writes evidence, prints the verdict lines and returns the process exit code
/// (0 held, 1 violated, 2 inconclusive).
pub fn finish(ctx: &Ctx, mut stats: Stats, report: Report) -> i32 {
    let known = load_known(ctx);
    // one violation per signature, smallest witness first
    stats.violations.sort_by(|a, b| a.weight.cmp(&b.weight).then(a.sig.cmp(&b.sig)));
    let mut seen = HashSet::new();
    let mut unknown: Vec<Violation> = vec![];
    let mut known_hit: Vec<(Known, Violation)> = vec![];
    for v in std::mem::take(&mut stats.violations) {
        if !seen.insert(v.sig.clone()) {
            continue;
        }
        if let Some(k) = known.iter().find(|k| k.property == ctx.id && k.signature == v.sig) {
            known_hit.push((k.clone(), v));
        } else {
            unknown.push(v);
        }
    }
    let wall = ctx.start.elapsed().as_secs_f64();
    let mut missing: Vec<String> = vec![];
    for (c, min) in &report.required {
        if stats.get(c) < *min {
            missing.push(format!("{c}={} (<{min})", stats.get(c)));
        }
    }
    let evaluations = stats.get("cases").max(1);
    let mut coverage = json!({
        "evaluations": evaluations,
        "distinct_nontrivial": stats.classes.len(),
        "rule": report.rule,
        "samples": stats.samples,
        "counters": stats.counters,
        "exhaustive": report.exhaustive,
        "known_findings_reproduced": known_hit.iter().map(|(k, _)| k.signature.clone()).collect::<Vec<_>>(),
        "threads": ctx.threads,
    });
    if let (Some(c), Some(e)) = (coverage.as_object_mut(), report.extra.as_object()) {
        for (k, v) in e {
            c.insert(k.clone(), v.clone());
        }
    }
    let evidence = json!({
        "property_id": ctx.id,
        "tier": ctx.tier.name(),
        "seed": ctx.seed,
        "level": "exploration",
        "coverage": coverage,
        "assumptions": report.assumptions,
        "wall_s": wall,
        "violations": unknown.len(),
    });
    let ev_dir = ctx.verif_dir.join("evidence");
    let _ = std::fs::create_dir_all(&ev_dir);
    let ev_path = ev_dir.join(format!("{}.json", ctx.id));
    let tmp = ev_dir.join(format!("{}.json.tmp", ctx.id));
    std::fs::write(&tmp, serde_json::to_string_pretty(&evidence).unwrap()).expect("write evidence");
    std::fs::rename(&tmp, &ev_path).expect("rename evidence");

    println!(
        "[{}] tier={} seed={} cases={} distinct_classes={} wall={:.1}s",
        ctx.id,
        ctx.tier.name(),
        ctx.seed,
        evaluations,
        stats.classes.len(),
        wall
    );
    for (k, v) in &stats.counters {
        println!("    {k} = {v}");
    }
    for (k, _) in &known_hit {
        println!("KNOWN-FINDING: property={} {} -- {}", ctx.id, k.signature, k.what);
    }
    if !unknown.is_empty() {
        let rdir = ctx.verif_dir.join("replays").join(ctx.id);
        let _ = std::fs::create_dir_all(&rdir);
        for v in unknown.iter().take(8) {
            let path = rdir.join(format!("{:016x}.json", hash_str(&v.sig)));
            let body = json!({"property": ctx.id, "seed": ctx.seed, "tier": ctx.tier.name(), "threads": ctx.threads, "signature": v.sig, "detail": v.detail,
                              "reproduce": format!("VERIF_SEED={} VERIF_THREADS={} ./check {} {}", ctx.seed, ctx.threads, ctx.id, ctx.tier.name())});
            let _ = std::fs::write(&path, serde_json::to_string_pretty(&body).unwrap());
            println!("VIOLATION property={} replay={}", ctx.id, path.display());
            println!("    signature: {}", v.sig);
            let d = serde_json::to_string(&v.detail).unwrap();
            println!("    detail: {}", if d.len() > 1500 { &d[..d.char_indices().nth(1500).map(|x| x.0).unwrap_or(d.len())] } else { &d });
        }
        if unknown.len() > 8 {
            println!("    ... and {} more distinct signatures", unknown.len() - 8);
        }
        return 1;
    }
    if !missing.is_empty() || stats.classes.len() < 2 {
        println!(
            "INCONCLUSIVE property={} reason=monitor did not reach the region it must observe: {} classes={}",
            ctx.id,
            missing.join(", "),
            stats.classes.len()
        );
        return 2;
    }
    println!("HELD property={} on everything observed", ctx.id);
    0
}

// ---------------------------------------------------------------------------------------------
// replay

/// `./check <ID> --replay <file>`: re-executes the recorded witness against the current tree.
/// Targeted for witnesses over the term algebra (text + operator table + expected term);
/// every other witness is reproduced by re-running the monitor with the recorded seed, tier
/// and thread count (all monitors are deterministic in these) and looking for the signature.
pub fn replay(id: &str, path: &str, verif_dir: &std::path::Path) -> i32 {
    let Ok(txt) = std::fs::read_to_string(path) else {
        println!("INCONCLUSIVE property={id} reason=cannot read replay file {path}");
        return 2;
    };
    if !path.ends_with(".json") {
        println!("{txt}");
        println!("INCONCLUSIVE property={id} reason=crash witness: reproduce with the command recorded above");
        return 2;
    }
    let Ok(v) = serde_json::from_str::<Value>(&txt) else {
        println!("INCONCLUSIVE property={id} reason=replay file is not JSON");
        return 2;
    };
    let d = &v["detail"];
    if d["kind"] == "tree-case" {
        if let (Some(text), Some(table), Some(path_name), Some(want)) = (d["text"].as_str(), d["table"].as_str().and_then(crate::sym::parse_table_desc), d["path"].as_str(), d["expected_term_mod_AC"].as_str()) {
            crate::sym::install(&table);
            let comm = crate::tree::comm_slots(&table);
            let r = crate::sympaths::run_path(crate::sympaths::PATHS.iter().find(|p| **p == path_name).copied().unwrap_or("flat"), text);
            let want_vars: Vec<String> = d["expected_variables"].as_array().map(|a| a.iter().filter_map(|x| x.as_str().map(|s| s.to_string())).collect()).unwrap_or_default();
            println!("text: {text}\ntable: {}\npath: {path_name}", crate::sym::table_desc(&table));
            return match r {
                Ok(o) => {
                    let got = format!("{:?}", crate::tree::ac_norm(&o.val, &comm));
                    println!("observed variables {:?}, term (mod AC) {got}\nexpected variables {want_vars:?}, term (mod AC) {want}", o.vars);
                    if got == want && o.vars == want_vars {
                        println!("HELD property={id} on the replayed witness");
                        0
                    } else {
                        println!("VIOLATION property={id} replay={path}");
                        1
                    }
                }
                Err(f) => {
                    println!("observed {}: {}", f.kind(), f.msg());
                    println!("VIOLATION property={id} replay={path}");
                    1
                }
            };
        }
    }
    // generic: deterministic re-run
    let (seed, tier, threads, sig) = (v["seed"].as_u64().unwrap_or(1), v["tier"].as_str().unwrap_or("quick").to_string(), v["threads"].as_u64().unwrap_or(16), v["signature"].as_str().unwrap_or("").to_string());
    println!("re-running: VERIF_SEED={seed} VERIF_THREADS={threads} vmon {id} {tier}  (looking for signature {sig:?})");
    let exe = std::env::current_exe().expect("own path");
    let out = std::process::Command::new(exe).arg(id).arg(&tier).env("VERIF_SEED", seed.to_string()).env("VERIF_THREADS", threads.to_string()).env("VERIF_DIR", verif_dir).output();
    match out {
        Ok(o) => {
            let so = String::from_utf8_lossy(&o.stdout);
            if so.lines().any(|l| l.trim_start().starts_with("signature: ") && l.contains(&sig)) {
                println!("the recorded witness violates again");
                println!("VIOLATION property={id} replay={path}");
                1
            } else if o.status.code() == Some(1) {
                println!("the monitor reports violations, but not this signature (it may be hidden behind the 8-witness print limit)");
                println!("VIOLATION property={id} replay={path}");
                1
            } else if o.status.code() == Some(0) {
                println!("HELD property={id}: the recorded witness no longer violates");
                0
            } else {
                println!("INCONCLUSIVE property={id} reason=re-run ended with {:?}", o.status.code());
                2
            }
        }
        Err(e) => {
            println!("INCONCLUSIVE property={id} reason=cannot re-run: {e}");
            2
        }
    }
}

/// The text with which this build of exmex reports `0^0` in its power shortcut (obtained by
/// provoking it once), so that recognising that documented error does not depend on its wording.
pub fn zero_pow_zero_msg() -> &'static str {
    static MSG: std::sync::OnceLock<String> = std::sync::OnceLock::new();
    MSG.get_or_init(|| {
        use exmex::prelude::*;
        match exmex::DeepEx::<f64>::zero().pow(exmex::DeepEx::<f64>::zero()) {
            Err(e) => e.msg().to_string(),
            Ok(_) => "\u{0}no error for zero to the power of zero\u{0}".to_string(),
        }
    })
}

/// is this the `0^0` error of the power shortcut?
pub fn is_zero_pow_zero(msg: impl AsRef<str>) -> bool {
    msg.as_ref().contains(zero_pow_zero_msg())
}
