//! Code paths of exmex over the term algebra, observed at the public API.
use crate::core::catch;
use crate::sym::{Sym, DX, FX};
use crate::tree::ac_norm;
use exmex::{ExResult, Express};

#[derive(Clone, Debug, PartialEq)]
pub struct Obs {
    pub vars: Vec<String>,
    pub val: Sym,
}

#[derive(Clone, Debug, PartialEq)]
pub enum Fail {
    Panic(String),
    Parse(String),
    Eval(String),
    Conv(String),
}

impl Fail {
    pub fn kind(&self) -> &'static str {
        match self {
            Fail::Panic(_) => "panic",
            Fail::Parse(_) => "parse-error",
            Fail::Eval(_) => "eval-error",
            Fail::Conv(_) => "conversion-error",
        }
    }
    pub fn msg(&self) -> &str {
        match self {
            Fail::Panic(m) | Fail::Parse(m) | Fail::Eval(m) | Fail::Conv(m) => m,
        }
    }
}

pub type R = Result<Obs, Fail>;

/// evaluates an expression on the symbolic assignment `Var(0), Var(1), ...`
pub fn observe<'a, E: Express<'a, Sym>>(e: &E) -> R {
    let vars: Vec<String> = e.var_names().to_vec();
    let vals: Vec<Sym> = (0..vars.len()).map(Sym::Var).collect();
    match e.eval(&vals) {
        Ok(val) => Ok(Obs { vars, val }),
        Err(e) => Err(Fail::Eval(e.msg().to_string())),
    }
}

/// the same through the consuming evaluation (vector / iterator variant)
pub fn observe_consuming(e: &FX, iter: bool) -> R {
    let vars: Vec<String> = e.var_names().to_vec();
    let vals: Vec<Sym> = (0..vars.len()).map(Sym::Var).collect();
    let r = if iter { e.eval_iter(vals.into_iter()) } else { e.eval_vec(vals) };
    match r {
        Ok(val) => Ok(Obs { vars, val }),
        Err(e) => Err(Fail::Eval(e.msg().to_string())),
    }
}

fn p<T>(r: ExResult<T>) -> Result<T, Fail> {
    r.map_err(|e| Fail::Parse(e.msg().to_string()))
}
fn c<T>(r: ExResult<T>) -> Result<T, Fail> {
    r.map_err(|e| Fail::Conv(e.msg().to_string()))
}

pub const PATHS: &[&str] = &[
    "flat",
    "flat_wo",
    "flat_recompiled",
    "wo_compiled_twice",
    "deep",
    "flat2deep",
    "wo2deep",
    "deep2flat",
    "deep2flat2deep",
    "flat2deep2flat",
];

pub fn run_path(path: &str, text: &str) -> R {
    let r = catch(|| -> R {
        match path {
            "flat" => observe(&p(FX::parse(text))?),
            "flat_wo" => observe(&p(FX::parse_wo_compile(text))?),
            // evaluated before and after an explicit compile(): nothing computed for the uncompiled
            // form may survive the folding
            "wo_eval_compile_eval" => {
                let mut f = p(FX::parse_wo_compile(text))?;
                let _ = observe(&f);
                f.compile();
                observe(&f)
            }
            "flat_vec" => observe_consuming(&p(FX::parse(text))?, false),
            "flat_iter" => observe_consuming(&p(FX::parse(text))?, true),
            "flat_wo_vec" => observe_consuming(&p(FX::parse_wo_compile(text))?, false),
            "flat_recompiled" => {
                let mut f = p(FX::parse(text))?;
                f.compile();
                observe(&f)
            }
            "wo_compiled_twice" => {
                let mut f = p(FX::parse_wo_compile(text))?;
                f.compile();
                f.compile();
                observe(&f)
            }
            "deep" => observe(&p(DX::parse(text))?),
            "flat2deep" => observe(&c(p(FX::parse(text))?.to_deepex())?),
            "wo2deep" => observe(&c(p(FX::parse_wo_compile(text))?.to_deepex())?),
            "deep2flat" => observe(&c(FX::from_deepex(p(DX::parse(text))?))?),
            "deep2flat2deep" => observe(&c(c(FX::from_deepex(p(DX::parse(text))?))?.to_deepex())?),
            "flat2deep2flat" => observe(&c(FX::from_deepex(c(p(FX::parse(text))?.to_deepex())?))?),
            _ => panic!("harness bug: unknown path {path}"),
        }
    });
    match r {
        Ok(r) => r,
        Err(m) => Err(Fail::Panic(m)),
    }
}

#[derive(Clone, Debug, PartialEq)]
pub enum Mismatch {
    Failed(Fail),
    Vars { got: Vec<String>, want: Vec<String> },
    Value { got: Sym, want: Sym },
    Hole,
}

impl Mismatch {
    pub fn kind(&self) -> String {
        match self {
            Mismatch::Failed(f) => f.kind().to_string(),
            Mismatch::Vars { .. } => "wrong-variables".into(),
            Mismatch::Value { .. } => "wrong-value".into(),
            Mismatch::Hole => "placeholder-reached-operator".into(),
        }
    }
    pub fn describe(&self) -> String {
        match self {
            Mismatch::Failed(f) => format!("{}: {}", f.kind(), f.msg()),
            Mismatch::Vars { got, want } => format!("variables {got:?}, expected {want:?}"),
            Mismatch::Value { got, want } => format!("value {got:?}, expected (mod AC) {want:?}"),
            Mismatch::Hole => "a default placeholder value reached an operator".into(),
        }
    }
}

/// compares an observation with the expected variable list and (AC-normalised) value
pub fn judge(r: &R, want_vars: &[String], want_norm: &Sym, comm: &[bool; 64]) -> Option<Mismatch> {
    match r {
        Err(f) => Some(Mismatch::Failed(f.clone())),
        Ok(o) => {
            if o.vars != want_vars {
                Some(Mismatch::Vars { got: o.vars.clone(), want: want_vars.to_vec() })
            } else if o.val.has_hole() {
                Some(Mismatch::Hole)
            } else {
                let got = ac_norm(&o.val, comm);
                if &got != want_norm {
                    Some(Mismatch::Value { got, want: want_norm.clone() })
                } else {
                    None
                }
            }
        }
    }
}
