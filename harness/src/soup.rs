//! Token soup: arbitrary (mostly ill-formed) strings over the token alphabet of a table.
use crate::rng::Rng;
use crate::sym::Table;

pub const SOUP_FIXED: &[&str] = &["(", ")", "(", ")", ",", "x", "y", "{z}", "{a b}", "1", "2", "3.5", " ", "x", "1", "w_1"];

pub fn soup_alphabet(table: &Table) -> Vec<String> {
    let mut toks: Vec<String> = table.iter().map(|o| o.name.to_string()).collect();
    // operators twice so that they are as frequent as operands
    toks.extend(table.iter().map(|o| o.name.to_string()));
    toks.extend(SOUP_FIXED.iter().map(|s| s.to_string()));
    toks
}

pub fn gen_soup(rng: &mut Rng, alphabet: &[String], maxlen: usize) -> Vec<String> {
    let len = 1 + rng.below(maxlen);
    let mut v = Vec::with_capacity(len * 2);
    for _ in 0..len {
        v.push(rng.pick(alphabet).clone());
        if rng.chance(1, 3) {
            v.push(" ".to_string());
        }
    }
    v
}

/// A soup that is biased towards well-formedness: operand (op operand)* with random parens.
pub fn gen_semi_soup(rng: &mut Rng, table: &Table, maxlen: usize) -> Vec<String> {
    let bins: Vec<&str> = table.iter().filter(|o| o.bin.is_some()).map(|o| o.name).collect();
    let uns: Vec<&str> = table.iter().filter(|o| o.un.is_some()).map(|o| o.name).collect();
    let consts: Vec<&str> = table.iter().filter(|o| o.constant.is_some()).map(|o| o.name).collect();
    let n = 1 + rng.below(maxlen);
    let mut v: Vec<String> = vec![];
    let mut open = 0;
    for i in 0..n {
        if i > 0 {
            v.push(" ".into());
            v.push(rng.pick(&bins).to_string());
            v.push(" ".into());
        }
        while rng.chance(1, 5) {
            if !uns.is_empty() && rng.chance(1, 2) {
                v.push(rng.pick(&uns).to_string());
            }
            v.push("(".into());
            open += 1;
        }
        if !uns.is_empty() && rng.chance(1, 5) {
            v.push(rng.pick(&uns).to_string());
            v.push(" ".into());
        }
        let operand = match rng.below(10) {
            0..=3 => ["x", "y", "{z}", "w_1"][rng.below(4)].to_string(),
            4 if !consts.is_empty() => rng.pick(&consts).to_string(),
            _ => ["1", "2", "3.5", "7", "10"][rng.below(5)].to_string(),
        };
        v.push(operand);
        while open > 0 && rng.chance(1, 3) {
            v.push(")".into());
            open -= 1;
        }
        // rare glitches
        if rng.chance(1, 40) {
            v.push([")", "(", ",", " ", "x"][rng.below(5)].to_string());
        }
    }
    while open > 0 && rng.chance(9, 10) {
        v.push(")".into());
        open -= 1;
    }
    v
}

/// Greedy token deletion while the predicate (= "still violates") holds.
pub fn shrink_tokens(toks: &[String], still_fails: &mut dyn FnMut(&str) -> bool, budget: usize) -> Vec<String> {
    let mut cur: Vec<String> = toks.to_vec();
    let mut left = budget;
    let mut chunk = (cur.len() / 2).max(1);
    while chunk >= 1 {
        let mut i = 0;
        let mut progressed = false;
        while i + chunk <= cur.len() {
            if left == 0 {
                return cur;
            }
            left -= 1;
            let mut cand = cur.clone();
            cand.drain(i..i + chunk);
            if !cand.is_empty() && still_fails(&cand.concat()) {
                cur = cand;
                progressed = true;
            } else {
                i += 1;
            }
        }
        if !progressed || chunk > 1 {
            if chunk == 1 {
                break;
            }
            chunk /= 2;
        }
    }
    cur
}
