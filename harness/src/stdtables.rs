//! Descriptions of the two shipped operator tables (names and arities as documented), used to
//! *render* well-formed texts for the float and the value-typed parsers. Priorities are only
//! used for placing parentheses; slots are unused.
use crate::sym::{intern, BinSpec, OpSpec, Sym, Table};

fn b(name: &str, prio: i64, comm: bool, unary: bool) -> OpSpec {
    OpSpec { name: intern(name), bin: Some(BinSpec { slot: 0, prio, comm }), un: if unary { Some(0) } else { None }, constant: None }
}
fn u(name: &str) -> OpSpec {
    OpSpec { name: intern(name), bin: None, un: Some(0), constant: None }
}
fn k(name: &str) -> OpSpec {
    OpSpec { name: intern(name), bin: None, un: None, constant: Some(Sym::Hole) }
}

pub const FLOAT_UNARY: &[&str] = &[
    "abs", "signum", "sin", "cos", "tan", "asin", "acos", "atan", "sinh", "cosh", "tanh", "asinh", "acosh", "atanh", "floor", "round", "ceil", "trunc",
    "fract", "exp", "sqrt", "cbrt", "ln", "log2", "log10", "log",
];
pub const FLOAT_CONSTS: &[&str] = &["PI", "π", "E", "e", "TAU", "τ"];

pub fn float_table() -> Table {
    let mut t = vec![b("^", 4, false, false), b("*", 2, true, false), b("/", 3, false, false), b("+", 0, true, true), b("-", 1, false, true), b("atan2", 0, false, false), b("min", 0, false, false), b("max", 0, false, false)];
    t.extend(FLOAT_UNARY.iter().map(|n| u(n)));
    t.extend(FLOAT_CONSTS.iter().map(|n| k(n)));
    t
}

/// the value-typed table without the array operators (`.`, dot, cross, length) and statements
pub fn val_table() -> Table {
    let mut t = vec![
        b("^", 6, false, false),
        b("+", 3, true, true),
        b("-", 3, false, true),
        b("*", 4, true, false),
        b("/", 5, false, false),
        b("atan2", 0, false, false),
        b("%", 5, false, false),
        b("|", 2, true, false),
        b("&", 2, true, false),
        b("XOR", 2, true, false),
        b(">>", 2, false, false),
        b("<<", 2, false, false),
        b("&&", 2, true, false),
        b("||", 2, true, false),
        b("==", 1, true, false),
        b(">=", 1, false, false),
        b(">", 1, false, false),
        b("<=", 1, false, false),
        b("<", 1, false, false),
        b("!=", 1, true, false),
        b("if", 0, false, false),
        b("else", 0, false, false),
        b("min", 0, false, false),
        b("max", 0, false, false),
    ];
    for n in ["signum", "abs", "sin", "cos", "tan", "exp", "sqrt", "ln", "log2", "log10", "log", "floor", "ceil", "round", "trunc", "fract", "cbrt", "swap_bytes", "to_le", "to_be", "fact", "to_int", "to_float", "tanh", "atan"] {
        t.push(u(n));
    }
    for n in ["PI", "π", "E", "TAU", "τ"] {
        t.push(k(n));
    }
    t
}
