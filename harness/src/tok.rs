//! `Tok`: a value type that tracks identity, clones and moved-out placeholders (C15).
use crate::sym::{current_table, Sym, SymMatcher};
use exmex::{BinOp, MakeOperators, Operator};
use std::cell::{Cell, RefCell};
use std::str::FromStr;

#[derive(Debug)]
pub struct Tok {
    pub term: Sym,
    /// `Some(i)`: this is (a copy of) the value passed for variable `i`
    pub origin: Option<usize>,
}

thread_local! {
    /// clones per variable identity
    static CLONES: RefCell<Vec<u64>> = const { RefCell::new(Vec::new()) };
    static DEFAULT_REACHED_OP: Cell<u64> = const { Cell::new(0) };
    static OPERANDS_SEEN: Cell<u64> = const { Cell::new(0) };
}

pub fn reset_counters(n_vars: usize) {
    CLONES.with(|c| *c.borrow_mut() = vec![0; n_vars]);
    DEFAULT_REACHED_OP.with(|c| c.set(0));
}
pub fn clones() -> Vec<u64> {
    CLONES.with(|c| c.borrow().clone())
}
pub fn default_reached_op() -> u64 {
    DEFAULT_REACHED_OP.with(|c| c.get())
}
pub fn operands_seen() -> u64 {
    OPERANDS_SEEN.with(|c| c.get())
}

impl Clone for Tok {
    fn clone(&self) -> Tok {
        if let Some(i) = self.origin {
            CLONES.with(|c| {
                if let Some(x) = c.borrow_mut().get_mut(i) {
                    *x += 1;
                }
            });
        }
        Tok { term: self.term.clone(), origin: self.origin }
    }
}

impl Default for Tok {
    fn default() -> Tok {
        Tok { term: Sym::Hole, origin: None }
    }
}

/// `From<f32>`, `From<u8>` and `PartialEq` make `Tok` a differentiable data type, so that
/// expressions produced by `partial` (which keep variables that no longer occur) can be evaluated
/// by the consuming entry points as well.
impl From<f32> for Tok {
    fn from(x: f32) -> Tok {
        Tok { term: Sym::Lit(format!("{x:?}")), origin: None }
    }
}
impl From<u8> for Tok {
    fn from(x: u8) -> Tok {
        Tok { term: Sym::Lit(format!("{x}")), origin: None }
    }
}
impl PartialEq for Tok {
    fn eq(&self, o: &Tok) -> bool {
        self.term == o.term
    }
}

impl FromStr for Tok {
    type Err = String;
    fn from_str(s: &str) -> Result<Tok, String> {
        Ok(Tok { term: s.parse()?, origin: None })
    }
}

#[inline]
fn operand(t: &Tok) {
    OPERANDS_SEEN.with(|c| c.set(c.get() + 1));
    if matches!(t.term, Sym::Hole) {
        DEFAULT_REACHED_OP.with(|c| c.set(c.get() + 1));
    }
}

macro_rules! mkfns {
    ($($i:literal $b:ident $u:ident),*) => {
        $(fn $b(a: Tok, b: Tok) -> Tok { operand(&a); operand(&b); Tok { term: Sym::Bin($i, Box::new(a.term), Box::new(b.term)), origin: None } }
          fn $u(a: Tok) -> Tok { operand(&a); Tok { term: Sym::Un($i, Box::new(a.term)), origin: None } })*
        pub const TBINS: &[fn(Tok, Tok) -> Tok] = &[$($b),*];
        pub const TUNS: &[fn(Tok) -> Tok] = &[$($u),*];
    };
}
mkfns!(0 tb0 tu0, 1 tb1 tu1, 2 tb2 tu2, 3 tb3 tu3, 4 tb4 tu4, 5 tb5 tu5, 6 tb6 tu6, 7 tb7 tu7, 8 tb8 tu8, 9 tb9 tu9, 10 tb10 tu10, 11 tb11 tu11, 12 tb12 tu12, 13 tb13 tu13, 14 tb14 tu14, 15 tb15 tu15, 16 tb16 tu16, 17 tb17 tu17, 18 tb18 tu18, 19 tb19 tu19, 20 tb20 tu20, 21 tb21 tu21, 22 tb22 tu22, 23 tb23 tu23, 24 tb24 tu24, 25 tb25 tu25, 26 tb26 tu26, 27 tb27 tu27, 28 tb28 tu28, 29 tb29 tu29, 30 tb30 tu30, 31 tb31 tu31, 32 tb32 tu32, 33 tb33 tu33, 34 tb34 tu34, 35 tb35 tu35, 36 tb36 tu36, 37 tb37 tu37, 38 tb38 tu38, 39 tb39 tu39, 40 tb40 tu40, 41 tb41 tu41, 42 tb42 tu42, 43 tb43 tu43, 44 tb44 tu44, 45 tb45 tu45, 46 tb46 tu46, 47 tb47 tu47, 48 tb48 tu48, 49 tb49 tu49, 50 tb50 tu50, 51 tb51 tu51, 52 tb52 tu52, 53 tb53 tu53, 54 tb54 tu54, 55 tb55 tu55, 56 tb56 tu56, 57 tb57 tu57, 58 tb58 tu58, 59 tb59 tu59, 60 tb60 tu60, 61 tb61 tu61, 62 tb62 tu62, 63 tb63 tu63);

#[derive(Clone, Debug, PartialEq, Eq, PartialOrd, Ord)]
pub struct TokOps;
impl MakeOperators<Tok> for TokOps {
    fn make<'a>() -> Vec<Operator<'a, Tok>> {
        current_table()
            .iter()
            .map(|o| {
                if let Some(c) = &o.constant {
                    Operator::make_constant(o.name, Tok { term: c.clone(), origin: None })
                } else {
                    match (&o.bin, o.un) {
                        (Some(b), Some(u)) => Operator::make_bin_unary(
                            o.name,
                            BinOp { apply: TBINS[b.slot as usize], prio: b.prio, is_commutative: b.comm },
                            TUNS[u as usize],
                        ),
                        (Some(b), None) => Operator::make_bin(
                            o.name,
                            BinOp { apply: TBINS[b.slot as usize], prio: b.prio, is_commutative: b.comm },
                        ),
                        (None, Some(u)) => Operator::make_unary(o.name, TUNS[u as usize]),
                        _ => panic!("harness bug: empty op spec"),
                    }
                }
            })
            .collect()
    }
}

pub type FT = exmex::FlatEx<Tok, TokOps, SymMatcher>;
