//! Free term algebra data type `Sym` + run-time configurable operator table.
//!
//! The parser/folder/evaluator of exmex is generic in the data type. Running it over `Sym`
//! makes the *result of an evaluation the applied tree itself*, so a monitor sees exactly which
//! operator was applied to which sub-results.
use exmex::{BinOp, MakeOperators, MatchLiteral, Operator};
use std::cell::{Cell, RefCell};
use std::fmt;
use std::str::FromStr;

#[derive(Clone, PartialEq, Eq, Hash, Default, PartialOrd, Ord)]
pub enum Sym {
    /// `Default::default()`; what `mem::take` leaves behind. Must never reach an operator.
    #[default]
    Hole,
    Lit(String),
    Var(usize),
    Un(u8, Box<Sym>),
    Bin(u8, Box<Sym>, Box<Sym>),
}

impl Sym {
    pub fn lit(s: &str) -> Sym {
        Sym::Lit(s.to_string())
    }
    pub fn size(&self) -> usize {
        match self {
            Sym::Un(_, a) => 1 + a.size(),
            Sym::Bin(_, a, b) => 1 + a.size() + b.size(),
            _ => 1,
        }
    }
    pub fn has_hole(&self) -> bool {
        match self {
            Sym::Hole => true,
            Sym::Un(_, a) => a.has_hole(),
            Sym::Bin(_, a, b) => a.has_hole() || b.has_hole(),
            _ => false,
        }
    }
    pub fn has_var(&self) -> bool {
        match self {
            Sym::Var(_) => true,
            Sym::Un(_, a) => a.has_var(),
            Sym::Bin(_, a, b) => a.has_var() || b.has_var(),
            _ => false,
        }
    }
}

/// `Debug` is what exmex prints for a folded number when unparsing a deep expression; it is by
/// construction a literal of `SymMatcher`, so printed expressions can be parsed back (C12).
impl fmt::Debug for Sym {
    fn fmt(&self, f: &mut fmt::Formatter<'_>) -> fmt::Result {
        match self {
            Sym::Hole => write!(f, "#H"),
            Sym::Lit(s) => write!(f, "{s}"),
            Sym::Var(i) => write!(f, "#V{i};"),
            Sym::Un(k, a) => write!(f, "#U{k}<{a:?}>"),
            Sym::Bin(k, a, b) => write!(f, "#B{k}<{a:?}|{b:?}>"),
        }
    }
}

fn parse_sym(s: &str) -> Option<(Sym, &str)> {
    if let Some(r) = s.strip_prefix("#H") {
        return Some((Sym::Hole, r));
    }
    if let Some(r) = s.strip_prefix("#V") {
        let n = r.find(';')?;
        return Some((Sym::Var(r[..n].parse().ok()?), &r[n + 1..]));
    }
    if let Some(r) = s.strip_prefix("#U") {
        let n = r.find('<')?;
        let k: u8 = r[..n].parse().ok()?;
        let (a, r) = parse_sym(&r[n + 1..])?;
        let r = r.strip_prefix('>')?;
        return Some((Sym::Un(k, Box::new(a)), r));
    }
    if let Some(r) = s.strip_prefix("#B") {
        let n = r.find('<')?;
        let k: u8 = r[..n].parse().ok()?;
        let (a, r) = parse_sym(&r[n + 1..])?;
        let r = r.strip_prefix('|')?;
        let (b, r) = parse_sym(r)?;
        let r = r.strip_prefix('>')?;
        return Some((Sym::Bin(k, Box::new(a), Box::new(b)), r));
    }
    // plain literal: digits with optional .digits
    let b = s.as_bytes();
    let mut n = 0;
    while n < b.len() && b[n].is_ascii_digit() {
        n += 1;
    }
    if n == 0 {
        return None;
    }
    if n + 1 < b.len() && b[n] == b'.' && b[n + 1].is_ascii_digit() {
        n += 1;
        while n < b.len() && b[n].is_ascii_digit() {
            n += 1;
        }
    }
    Some((Sym::Lit(s[..n].to_string()), &s[n..]))
}

impl FromStr for Sym {
    type Err = String;
    fn from_str(s: &str) -> Result<Self, String> {
        match parse_sym(s) {
            Some((t, "")) => Ok(t),
            // used together with exmex' own `NumberMatcher` (C13): keep the spelling
            _ if !s.is_empty() && s.bytes().all(|c| c.is_ascii_digit() || c == b'.') => {
                Ok(Sym::Lit(s.to_string()))
            }
            _ => Err(format!("bad sym literal {s}")),
        }
    }
}

#[derive(Clone, Debug, PartialEq, Eq, PartialOrd, Ord)]
pub struct SymMatcher;
impl MatchLiteral for SymMatcher {
    fn is_literal(text: &str) -> Option<&str> {
        let (_, rest) = parse_sym(text)?;
        let n = text.len() - rest.len();
        if n == 0 {
            None
        } else {
            Some(&text[..n])
        }
    }
}

#[derive(Clone, Debug, PartialEq)]
pub struct BinSpec {
    pub slot: u8,
    pub prio: i64,
    pub comm: bool,
}

#[derive(Clone, Debug, PartialEq)]
pub struct OpSpec {
    pub name: &'static str,
    pub bin: Option<BinSpec>,
    pub un: Option<u8>,
    pub constant: Option<Sym>,
}

impl OpSpec {
    pub fn bin(name: &'static str, slot: u8, prio: i64, comm: bool) -> OpSpec {
        OpSpec { name, bin: Some(BinSpec { slot, prio, comm }), un: None, constant: None }
    }
    pub fn un(name: &'static str, slot: u8) -> OpSpec {
        OpSpec { name, bin: None, un: Some(slot), constant: None }
    }
    pub fn dual(name: &'static str, bslot: u8, prio: i64, comm: bool, uslot: u8) -> OpSpec {
        OpSpec { name, bin: Some(BinSpec { slot: bslot, prio, comm }), un: Some(uslot), constant: None }
    }
    pub fn constant(name: &'static str, value: Sym) -> OpSpec {
        OpSpec { name, bin: None, un: None, constant: Some(value) }
    }
    pub fn is_alpha(&self) -> bool {
        self.name.chars().next().map(|c| c.is_alphabetic() || c == '_').unwrap_or(false)
    }
}

pub type Table = Vec<OpSpec>;

pub fn table_desc(t: &Table) -> String {
    t.iter()
        .map(|o| {
            let mut s = o.name.to_string();
            if let Some(b) = &o.bin {
                s.push_str(&format!(":b{}p{}{}", b.slot, b.prio, if b.comm { "c" } else { "" }));
            }
            if let Some(u) = o.un {
                s.push_str(&format!(":u{u}"));
            }
            if let Some(c) = &o.constant {
                s.push_str(&format!(":={c:?}"));
            }
            s
        })
        .collect::<Vec<_>>()
        .join(" ")
}

thread_local! {
    static TABLE: RefCell<Table> = const { RefCell::new(Vec::new()) };
    /// number of operator applications executed on this thread (fold events are applications
    /// that happen during parse/compile)
    static APPLIED: Cell<u64> = const { Cell::new(0) };
    /// set when `Hole` reaches an operator
    static HOLE_SEEN: Cell<bool> = const { Cell::new(false) };
}

pub fn install(t: &Table) {
    TABLE.with(|x| *x.borrow_mut() = t.clone());
}
pub fn current_table() -> Table {
    TABLE.with(|x| x.borrow().clone())
}
pub fn applied() -> u64 {
    APPLIED.with(|c| c.get())
}
pub fn take_hole_seen() -> bool {
    HOLE_SEEN.with(|c| c.replace(false))
}

#[inline]
fn note(a: &Sym) {
    APPLIED.with(|c| c.set(c.get() + 1));
    if matches!(a, Sym::Hole) {
        HOLE_SEEN.with(|c| c.set(true));
    }
}

macro_rules! mkfns {
    ($($i:literal $b:ident $u:ident),*) => {
        $(fn $b(a: Sym, b: Sym) -> Sym { note(&a); if matches!(b, Sym::Hole) { note(&b); } Sym::Bin($i, Box::new(a), Box::new(b)) }
          fn $u(a: Sym) -> Sym { note(&a); Sym::Un($i, Box::new(a)) })*
        pub const BINS: &[fn(Sym, Sym) -> Sym] = &[$($b),*];
        pub const UNS: &[fn(Sym) -> Sym] = &[$($u),*];
    };
}
mkfns!(0 b0 u0, 1 b1 u1, 2 b2 u2, 3 b3 u3, 4 b4 u4, 5 b5 u5, 6 b6 u6, 7 b7 u7, 8 b8 u8, 9 b9 u9, 10 b10 u10, 11 b11 u11, 12 b12 u12, 13 b13 u13, 14 b14 u14, 15 b15 u15, 16 b16 u16, 17 b17 u17, 18 b18 u18, 19 b19 u19, 20 b20 u20, 21 b21 u21, 22 b22 u22, 23 b23 u23, 24 b24 u24, 25 b25 u25, 26 b26 u26, 27 b27 u27, 28 b28 u28, 29 b29 u29, 30 b30 u30, 31 b31 u31, 32 b32 u32, 33 b33 u33, 34 b34 u34, 35 b35 u35, 36 b36 u36, 37 b37 u37, 38 b38 u38, 39 b39 u39, 40 b40 u40, 41 b41 u41, 42 b42 u42, 43 b43 u43, 44 b44 u44, 45 b45 u45, 46 b46 u46, 47 b47 u47, 48 b48 u48, 49 b49 u49, 50 b50 u50, 51 b51 u51, 52 b52 u52, 53 b53 u53, 54 b54 u54, 55 b55 u55, 56 b56 u56, 57 b57 u57, 58 b58 u58, 59 b59 u59, 60 b60 u60, 61 b61 u61, 62 b62 u62, 63 b63 u63);

pub const N_SLOTS: usize = 64;

#[derive(Clone, Debug, PartialEq, Eq, PartialOrd, Ord)]
pub struct SymOps;
impl MakeOperators<Sym> for SymOps {
    fn make<'a>() -> Vec<Operator<'a, Sym>> {
        TABLE.with(|t| {
            t.borrow()
                .iter()
                .map(|o| {
                    if let Some(c) = &o.constant {
                        Operator::make_constant(o.name, c.clone())
                    } else {
                        match (&o.bin, o.un) {
                            (Some(b), Some(u)) => Operator::make_bin_unary(
                                o.name,
                                BinOp { apply: BINS[b.slot as usize], prio: b.prio, is_commutative: b.comm },
                                UNS[u as usize],
                            ),
                            (Some(b), None) => Operator::make_bin(
                                o.name,
                                BinOp { apply: BINS[b.slot as usize], prio: b.prio, is_commutative: b.comm },
                            ),
                            (None, Some(u)) => Operator::make_unary(o.name, UNS[u as usize]),
                            _ => panic!("harness bug: empty op spec"),
                        }
                    }
                })
                .collect()
        })
    }
}

/// Interns a name so that it can be used as `&'static str` in an operator table.
pub fn intern(s: &str) -> &'static str {
    use std::collections::HashSet;
    use std::sync::Mutex;
    static POOL: Mutex<Option<HashSet<&'static str>>> = Mutex::new(None);
    let mut g = POOL.lock().unwrap();
    let set = g.get_or_insert_with(HashSet::new);
    if let Some(x) = set.get(s) {
        return x;
    }
    let l: &'static str = Box::leak(s.to_string().into_boxed_str());
    set.insert(l);
    l
}

pub type FX = exmex::FlatEx<Sym, SymOps, SymMatcher>;
pub type DX<'a> = exmex::DeepEx<'a, Sym, SymOps, SymMatcher>;

/// inverse of `table_desc` (used by --replay)
pub fn parse_table_desc(desc: &str) -> Option<Table> {
    let mut t = vec![];
    for item in desc.split(' ').filter(|x| !x.is_empty()) {
        // name may itself contain ':'? operator names used by the generators never do
        let mut parts = item.split(':');
        let name = intern(parts.next()?);
        let mut o = OpSpec { name, bin: None, un: None, constant: None };
        for p in parts {
            if let Some(c) = p.strip_prefix('=') {
                o.constant = Some(c.parse().ok()?);
            } else if let Some(b) = p.strip_prefix('b') {
                let pi = b.find('p')?;
                let slot: u8 = b[..pi].parse().ok()?;
                let rest = &b[pi + 1..];
                let comm = rest.ends_with('c');
                let prio: i64 = rest.trim_end_matches('c').parse().ok()?;
                o.bin = Some(BinSpec { slot, prio, comm });
            } else if let Some(u) = p.strip_prefix('u') {
                o.un = Some(u.parse().ok()?);
            }
        }
        t.push(o);
    }
    Some(t)
}
